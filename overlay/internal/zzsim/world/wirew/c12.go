package wirew

import (
	"bufio"
	"bytes"
	"context"
	"errors"
	"fmt"
	"io"

	"go.uber.org/thriftrw/internal/zzsim/ref"
	"go.uber.org/thriftrw/internal/zzsim/refwire"
	"go.uber.org/thriftrw/internal/zzsim/simio"
	"go.uber.org/thriftrw/internal/zzsim/simrt"
	"go.uber.org/thriftrw/internal/zzsim/world"
	"go.uber.org/thriftrw/protocol/binary"
	"go.uber.org/thriftrw/protocol/stream"
	"go.uber.org/thriftrw/wire"
)

type framing int

const (
	frVersioned framing = iota
	frLegacy
	frBare
)

func (f framing) String() string { return [...]string{"versioned", "legacy", "bare"}[f] }

var nameLens = []int{1, 2, 3, 7, 12, 255, 256, 1000, 65535, 65536}
var envTypes = []int8{1, 4, 2, 3, 0, 5, 64, 127}
var seqIDs = []int32{0, 1, -1, 2147483647, -2147483648, 65536, 255, -256}

type request struct {
	Name  string
	Type  int8
	SeqID int32
	Body  ref.Val
	F     framing
}

func genName() string {
	n := nameLens[simrt.ChoiceBias("env.name-len", len(nameLens), 0.3)]
	b := make([]byte, n)
	mode := ch("env.name-mode", 4)
	seed := rnd("env.name-seed")
	for i := range b {
		switch mode {
		case 0:
			b[i] = byte('a' + i%26)
		case 1: // multiplexed Service:method
			b[i] = byte('A' + i%26)
			if i == n/2 {
				b[i] = ':'
			}
		case 2: // arbitrary bytes incl. non-UTF-8 and NUL
			seed = simrt.SplitMix(seed)
			b[i] = byte(seed)
		default:
			b[i] = 0xff - byte(i%7)
		}
	}
	return string(b)
}

// largeBodies: C12 sometimes draws a body of a few MiB; C18, which preempts at statement
// level, does not (a run would take millions of steps).
var largeBodies bool

func genRequest() request {
	r := request{Name: genName()}
	r.Type = envTypes[simrt.ChoiceBias("env.type", len(envTypes), 0.4)]
	if k := ch("env.seqid", len(seqIDs)+1); k < len(seqIDs) {
		r.SeqID = seqIDs[k]
	} else {
		r.SeqID = int32(rnd("env.seqid-rnd"))
	}
	r.Body = genVal(ref.TStruct, 0, genOpts{maxDepth: 2})
	if largeBodies && simrt.Flip("env.large-body", 0.004) {
		// a body with a binary field of a few MiB (content that is not all zeros)
		sz := (2 << 20) + 1 + ch("env.large-body-extra", 3)*((1<<19)+5)
		bs := make([]byte, sz)
		for i := range bs {
			bs[i] = byte(i*13 + 1)
		}
		r.Body.Fields = append(r.Body.Fields, ref.Field{ID: 3000, V: ref.Bin(bs)})
	}
	if simrt.Flip("env.deep-body", 0.01) {
		// a body nested dozens of levels deep: a linked list of structs, some links through a list
		v := ref.Struct(ref.F(1, ref.I32(7)))
		for i, n := 0, []int{40, 63, 64, 65, 66, 100}[ch("env.deep-levels", 6)]; i < n; i++ {
			if ch("env.deep-link", 3) == 1 {
				v = ref.Struct(ref.F(2, ref.List(ref.TStruct, v)))
			} else {
				v = ref.Struct(ref.F(1, v))
			}
		}
		r.Body = v
	}
	r.F = framing(ch("env.framing", 3))
	return r
}

func (r request) encode() []byte {
	switch r.F {
	case frVersioned:
		return ref.EncodeEnvelope(ref.Envelope{Name: r.Name, Type: r.Type, SeqID: r.SeqID, Body: r.Body, Strict: true})
	case frLegacy:
		return ref.EncodeEnvelope(ref.Envelope{Name: r.Name, Type: r.Type, SeqID: r.SeqID, Body: r.Body})
	}
	return ref.Encode(nil, r.Body)
}

func (r request) String() string {
	return fmt.Sprintf("%s request name=%q(%d bytes) type=%d seqid=%d body=%s", r.F, first(r.Name, 24), len(r.Name), r.Type, r.SeqID, first(r.Body.String(), 100))
}

type respKind int

const (
	respNone respKind = iota
	respV0
	respV1
	respOther
)

func (k respKind) String() string {
	return [...]string{"no-envelope", "legacy(v0)", "versioned(v1)", "other"}[k]
}

func classify(x interface{}) (respKind, string, int32) {
	switch r := x.(type) {
	case *binary.EnvelopeV0Responder:
		return respV0, r.Name, r.SeqID
	case binary.EnvelopeV0Responder:
		return respV0, r.Name, r.SeqID
	case *binary.EnvelopeV1Responder:
		return respV1, r.Name, r.SeqID
	case binary.EnvelopeV1Responder:
		return respV1, r.Name, r.SeqID
	}
	if x == interface{}(binary.NoEnvelopeResponder) {
		return respNone, "", 0
	}
	return respOther, "", 0
}

// reqOutcome is what a request API returned.
type reqOutcome struct {
	ok     bool
	body   ref.Val
	kind   respKind
	name   string
	seqid  int32
	err    string
	panic  string
	budget bool
	used   int64
	resp   interface{}
}

func (o reqOutcome) String() string {
	if o.panic != "" {
		return "PANIC " + first(o.panic, 200)
	}
	if o.budget {
		return "BUDGET-EXCEEDED"
	}
	if !o.ok {
		return "ERR(" + first(o.err, 90) + ")"
	}
	return fmt.Sprintf("OK(responder=%s name=%q seqid=%d consumed=%d body=%s)", o.kind, first(o.name, 24), o.seqid, o.used, first(o.body.String(), 100))
}

func guardReq(f func() reqOutcome) (o reqOutcome) {
	defer func() {
		if r := recover(); r != nil {
			if _, ok := r.(simio.ErrBudget); ok {
				o = reqOutcome{budget: true}
				return
			}
			o = reqOutcome{panic: fmt.Sprint(r)}
		}
	}()
	return f()
}

// cursorReader is a *bytes.Reader (with everything a bytes.Reader offers) that remembers how
// far ReadAt was asked to read.
type cursorReader struct {
	*bytes.Reader
	maxEnd int64
}

func (c *cursorReader) ReadAt(p []byte, off int64) (int, error) {
	n, err := c.Reader.ReadAt(p, off)
	if n > 0 && off+int64(n) > c.maxEnd {
		c.maxEnd = off + int64(n)
	}
	return n, err
}

func decodeRequest(et int8, b []byte, plan simio.Plan) reqOutcome {
	return guardReq(func() reqOutcome {
		var ra io.ReaderAt
		var maxEnd *int64
		if plan.TruncAt < 0 && plan.ErrAt < 0 && ch("c12.request-in-a-bytes-reader", 4) == 1 {
			// the caller's own reader, its Read cursor wherever a checksum pass or a sniff left it
			rd := &cursorReader{Reader: bytes.NewReader(b)}
			rd.Seek(int64([]int{0, 2, len(b) / 2, len(b)}[ch("c12.reader-cursor", 4)]), io.SeekStart)
			ra, maxEnd = rd, &rd.maxEnd
		} else {
			sra := simio.NewReaderAt(b, plan)
			sra.Budget = budgetFor(len(b))
			ra, maxEnd = sra, &sra.MaxEnd
		}
		v, resp, err := binary.Default.DecodeRequest(wire.EnvelopeType(et), ra)
		if err != nil {
			return reqOutcome{err: err.Error()}
		}
		body, err := refwire.Force(v)
		if err != nil {
			return reqOutcome{err: "force: " + err.Error()}
		}
		k, n, s := classify(resp)
		return reqOutcome{ok: true, body: body, kind: k, name: n, seqid: s, resp: resp, used: *maxEnd}
	})
}

func readRequest(et int8, r io.Reader, raw *simio.Reader) reqOutcome {
	return guardReq(func() reqOutcome {
		gb := &genericBody{}
		ctx, done := context.WithCancel(context.Background())
		rw, err := binary.Default.ReadRequest(ctx, wire.EnvelopeType(et), r, gb)
		done() // the request's context ends once the request has been read
		if err != nil {
			return reqOutcome{err: err.Error()}
		}
		k, n, s := classify(rw)
		o := reqOutcome{ok: true, body: gb.V, kind: k, name: n, seqid: s, resp: rw}
		if raw != nil {
			o.used = int64(raw.Offset() - raw.StartOffset())
		}
		return o
	})
}

// skipBody is a stream.BodyReader that skips the request struct instead of decoding it.
type skipBody struct{}

func (skipBody) Decode(sr stream.Reader) error { return sr.Skip(wire.TStruct) }

func readRequestSkipping(et int8, r io.Reader) reqOutcome {
	return guardReq(func() reqOutcome {
		rw, err := binary.Default.ReadRequest(context.Background(), wire.EnvelopeType(et), r, skipBody{})
		if err != nil {
			return reqOutcome{err: err.Error()}
		}
		k, n, s := classify(rw)
		return reqOutcome{ok: true, kind: k, name: n, seqid: s, resp: rw}
	})
}

// checkReply decodes the reply bytes the way a client of framing f would and
// compares with what the server was asked to send.
func checkReply(res *world.Result, tag string, req request, reply []byte, replyType int8, replyBody ref.Val) {
	switch req.F {
	case frBare:
		v, n, err := ref.Decode(reply, ref.TStruct)
		if err != nil || n != len(reply) {
			res.Failf("C12/reply-framing", "%s: reply to a bare request is not exactly one bare struct (%v, %d of %d bytes): %x", tag, err, n, len(reply), clip(reply, 48))
			return
		}
		if !bytes.Equal(ref.Encode(nil, v), ref.Encode(nil, replyBody)) {
			res.Failf("C12/reply-body", "%s: reply body %s differs from what the server sent %s", tag, v, replyBody)
		}
	default:
		e, n, err := ref.DecodeEnvelope(reply)
		if err != nil || n != len(reply) {
			res.Failf("C12/reply-framing", "%s: reply to a %s request does not decode as an envelope (%v, %d of %d bytes): %x", tag, req.F, err, n, len(reply), clip(reply, 48))
			return
		}
		if e.Strict != (req.F == frVersioned) {
			res.Failf("C12/reply-framing", "%s: request was %s but the reply envelope is strict=%v", tag, req.F, e.Strict)
		}
		if e.Name != req.Name {
			res.Failf("C12/reply-echo-name", "%s: reply names %q, request was %q", tag, first(e.Name, 40), first(req.Name, 40))
		}
		if e.SeqID != req.SeqID {
			res.Failf("C12/reply-echo-seqid", "%s: reply has seqid %d, request had %d", tag, e.SeqID, req.SeqID)
		}
		if e.Type != replyType {
			res.Failf("C12/reply-type", "%s: reply has type %d, server asked for %d", tag, e.Type, replyType)
		}
		if !bytes.Equal(ref.Encode(nil, e.Body), ref.Encode(nil, replyBody)) {
			res.Failf("C12/reply-body", "%s: reply body %s differs from what the server sent %s", tag, e.Body, replyBody)
		}
	}
}

func wantKind(f framing) respKind {
	switch f {
	case frVersioned:
		return respV1
	case frLegacy:
		return respV0
	}
	return respNone
}

// RunC12 is one C12 run.
func RunC12(cfg simrt.Config, o world.Opts) *world.Result {
	res := &world.Result{}
	if o.Trace {
		cfg.KeepLabels = true
		cfg.KeepEvents = true
	}
	cfg.StepCap = 1 << 40 // termination is enforced by the readers' call budgets
	s := simrt.New(cfg)
	var lines []string
	logf := func(f string, a ...interface{}) {
		if o.Trace {
			lines = append(lines, fmt.Sprintf(f, a...))
		}
	}
	h := world.NewHasher()
	s.Run("main", func() {
		largeBodies = true
		defer func() { largeBodies = false }()
		s.ChunkP0 = []float64{1, 0.5, 0}[ch("sim.chunkp0", 3)]
		kind := o.Kind
		if kind == "" {
			kind = []string{"roundtrip", "clientserver", "pipe", "agreement", "envserver"}[ch("c12.kind", 5)]
		} else {
			simrt.Pin("c12.kind", 5, map[string]int{"roundtrip": 0, "clientserver": 1, "pipe": 2, "agreement": 3, "envserver": 4}[kind])
		}
		res.Count("c12.kind."+kind, 1)
		res.Nontrivial = true
		switch kind {
		case "roundtrip":
			c12Roundtrip(res, logf, h)
		case "clientserver":
			c12ClientServer(res, logf, h, false)
		case "pipe":
			c12ClientServer(res, logf, h, true)
		case "envserver":
			c12EnvServer(res, logf, h)
		default:
			c12Agreement(res, logf, h, o)
		}
	})
	res.FromSim(s)
	if s.Aborted != "" {
		res.Failf("C12/run-abandoned-"+s.Aborted, "run abandoned: %s", s.Aborted)
	}
	for _, t := range s.Tasks() {
		if t.Panic != "" {
			res.Failf("C12/panic", "task %s panicked: %s", t.Name, first(t.Panic, 500))
		}
	}
	for _, c := range res.Choices {
		h.Int(int64(c))
	}
	for _, f := range res.Failures {
		h.Str(f.Check)
	}
	res.Hash = h.Sum()
	k := world.NewHasher()
	for _, c := range res.Choices {
		k.Int(int64(c))
	}
	res.Key = k.Sum()
	if o.Trace {
		res.Trace = append(lines, world.TraceOf(s, "")...)
		res.Sample = lines
	}
	return res
}

func c12Roundtrip(res *world.Result, logf func(string, ...interface{}), h *world.Hasher) {
	req := genRequest()
	if req.F == frBare {
		req.F = frVersioned
	}
	logf("roundtrip: %s", req)
	want := req.encode()
	env := wire.Envelope{Name: req.Name, Type: wire.EnvelopeType(req.Type), SeqID: req.SeqID, Value: refwire.ToWire(req.Body)}
	variant := ch("rt.variant", 2) // 0 value-based, 1 streaming
	w := simio.NewWriter(-1)
	var err error
	func() {
		defer func() {
			if r := recover(); r != nil {
				err = fmt.Errorf("panic: %v", r)
			}
		}()
		switch {
		case variant == 0 && req.F == frVersioned:
			err = binary.Default.EncodeEnveloped(env, w)
		case variant == 0:
			bw := binary.BorrowWriter(w)
			err = bw.WriteLegacyEnveloped(env)
			binary.ReturnWriter(bw)
		default:
			sw := binary.NewStreamWriter(w)
			hdr := stream.EnvelopeHeader{Name: req.Name, Type: wire.EnvelopeType(req.Type), SeqID: req.SeqID}
			if req.F == frVersioned {
				err = sw.WriteEnvelopeBegin(hdr)
			} else {
				err = sw.WriteLegacyEnvelopeBegin(hdr)
			}
			if err == nil {
				err = streamEncode(sw, req.Body)
			}
			if err == nil {
				if req.F == frVersioned {
					err = sw.WriteEnvelopeEnd()
				} else {
					err = sw.WriteLegacyEnvelopeEnd()
				}
			}
			sw.Close()
		}
	}()
	h.Str(fmt.Sprint(err))
	if err != nil {
		res.Failf("C12/encode-failed", "encoding %s (variant %d) failed: %v", req, variant, err)
		return
	}
	if !bytes.Equal(w.Buf, want) {
		res.Failf("C12/encode-bytes", "encoding %s (variant %d) gave %x, the protocol says %x", req, variant, clip(w.Buf, 64), clip(want, 64))
		return
	}
	// decode under a delivery schedule
	faulted := simrt.Flip("rt.faulted", 0.3)
	plan := simio.GenPlan(len(want), faulted)
	cut := int64(-1)
	if plan.TruncAt >= 0 {
		cut = int64(plan.TruncAt)
	}
	if plan.ErrAt >= 0 {
		cut = int64(plan.ErrAt)
	}
	var got ref.Envelope
	var derr error
	func() {
		defer func() {
			if r := recover(); r != nil {
				derr = fmt.Errorf("panic: %v", r)
				res.Failf("C12/panic", "decoding %s over %s panicked: %v", req, plan, r)
			}
		}()
		if ch("rt.decode-variant", 2) == 0 {
			e, err := binary.Default.DecodeEnveloped(simio.NewReaderAt(want, plan))
			if err != nil {
				derr = err
				return
			}
			body, err := refwire.Force(e.Value)
			if err != nil {
				derr = err
				return
			}
			got = ref.Envelope{Name: e.Name, Type: int8(e.Type), SeqID: e.SeqID, Body: body}
		} else {
			r, _ := simio.NewReader(want, plan)
			sr := binary.NewStreamReader(r)
			defer sr.Close()
			eh, err := sr.ReadEnvelopeBegin()
			if err != nil {
				derr = err
				return
			}
			body, err := streamDecode(sr, wire.TStruct, 0)
			if err != nil {
				derr = err
				return
			}
			if err := sr.ReadEnvelopeEnd(); err != nil {
				derr = err
				return
			}
			got = ref.Envelope{Name: eh.Name, Type: int8(eh.Type), SeqID: eh.SeqID, Body: body}
		}
	}()
	logf("decode over %s: err=%v", plan, derr)
	h.Str(fmt.Sprint(derr))
	if cut >= 0 && cut < int64(len(want)) {
		if derr == nil {
			res.Failf("C12/fault-accepted", "decoding %s succeeded although the stream was cut at %d of %d", req, cut, len(want))
		}
		return
	}
	if derr != nil {
		res.Failf("C12/roundtrip-decode", "decoding the encoding of %s over %s failed: %v", req, plan, derr)
		return
	}
	if got.Name != req.Name || got.Type != req.Type || got.SeqID != req.SeqID || !bytes.Equal(ref.Encode(nil, got.Body), ref.Encode(nil, req.Body)) {
		res.Failf("C12/roundtrip", "round trip of %s over %s returned name=%q type=%d seqid=%d body=%s", req, plan, first(got.Name, 24), got.Type, got.SeqID, got.Body)
	}
}

// pipelined: now and then another request is read (and dropped) between reading a request
// and answering it, as a server does that reads ahead; the responder of the first request
// must not be affected by what the library reuses for the second.
func pipelined(res *world.Result) {
	if !simrt.Flip("cs.pipelined", 0.3) {
		return
	}
	n := 1 + ch("cs.pipelined-n", 2)
	for i := 0; i < n; i++ {
		r2 := genRequest()
		b2 := r2.encode()
		full := simio.Plan{TruncAt: -1, ErrAt: -1}
		if ch("cs.pipelined-api", 2) == 0 {
			decodeRequest(r2.Type, b2, full)
		} else {
			r, _ := simio.NewReader(b2, full)
			readRequest(r2.Type, r, nil)
		}
	}
	res.Count("c12.requests-answered-after-reading-ahead", 1)
}

// failedReplyBefore: an earlier exchange whose reply could not be written (the peer went away
// after k bytes); whatever the library keeps of that reply must not show in the next one.
func failedReplyBefore(res *world.Result) {
	if !simrt.Flip("cs.failed-reply-before", 0.15) {
		return
	}
	r0 := genRequest()
	b0 := r0.encode()
	full := simio.Plan{TruncAt: -1, ErrAt: -1}
	body := genVal(ref.TStruct, 0, genOpts{maxDepth: 1})
	limit := ch("cs.failed-reply-after-bytes", 12)
	if ch("cs.failed-reply-api", 2) == 0 {
		o := decodeRequest(r0.Type, b0, full)
		if r, ok := o.resp.(binary.Responder); o.ok && ok {
			guardReq(func() reqOutcome {
				r.EncodeResponse(refwire.ToWire(body), wire.Reply, simio.NewWriter(limit))
				return reqOutcome{}
			})
		}
	} else {
		rd, _ := simio.NewReader(b0, full)
		o := readRequest(r0.Type, rd, nil)
		if rw, ok := o.resp.(stream.ResponseWriter); o.ok && ok {
			guardReq(func() reqOutcome {
				rw.WriteResponse(wire.Reply, simio.NewWriter(limit), &genericEnveloper{Body: body})
				return reqOutcome{}
			})
		}
	}
	res.Count("c12.exchanges-after-a-reply-that-could-not-be-written", 1)
}

// nestedReplies: after a reply whose body failed to encode, a reply is written whose body,
// while it is being encoded, answers another request on another connection. Both replies
// must be what they are when written one after the other.
func nestedReplies(res *world.Result, logf func(string, ...interface{})) bool {
	if !simrt.Flip("cs.nested-replies", 0.1) {
		return false
	}
	full := simio.Plan{TruncAt: -1, ErrAt: -1}
	read := func() (request, stream.ResponseWriter) {
		r := genRequest()
		rd, _ := simio.NewReader(r.encode(), full)
		o := readRequest(r.Type, rd, nil)
		rw, _ := o.resp.(stream.ResponseWriter)
		return r, rw
	}
	r0, rw0 := read()
	if rw0 != nil {
		guardReq(func() reqOutcome {
			rw0.WriteResponse(wire.Reply, simio.NewWriter(-1), failingEnveloper{})
			return reqOutcome{}
		})
	}
	_ = r0
	outer, rwOuter := read()
	inner, rwInner := read()
	if rwOuter == nil || rwInner == nil {
		return true
	}
	bOuter := genVal(ref.TStruct, 0, genOpts{maxDepth: 1})
	bInner := genVal(ref.TStruct, 0, genOpts{maxDepth: 1})
	wOuter, wInner := simio.NewWriter(-1), simio.NewWriter(-1)
	var innerErr error
	o := guardReq(func() reqOutcome {
		err := rwOuter.WriteResponse(wire.Reply, wOuter, &nestingEnveloper{genericEnveloper{Body: bOuter}, func() {
			innerErr = rwInner.WriteResponse(wire.Reply, wInner, &genericEnveloper{Body: bInner})
		}})
		if err != nil {
			return reqOutcome{err: err.Error()}
		}
		return reqOutcome{ok: true}
	})
	res.Count("c12.replies-written-while-another-reply-is-being-encoded", 1)
	logf("nested replies: outer %s, inner %s -> %s, inner error %v", outer, inner, o, innerErr)
	if o.panic != "" {
		res.Failf("C12/panic", "writing a reply while another one is being encoded panicked: %s", o.panic)
		return true
	}
	if !o.ok || innerErr != nil {
		res.Failf("C12/reply-write", "writing a reply while another one is being encoded failed: outer %s, inner %v", o, innerErr)
		return true
	}
	checkReply(res, "outer reply (another reply was written while its body was encoded)", outer, wOuter.Buf, 2, bOuter)
	checkReply(res, "inner reply (written while another reply's body was encoded)", inner, wInner.Buf, 2, bInner)
	return true
}

// failingEnveloper is a reply whose body cannot be encoded.
type failingEnveloper struct{}

func (failingEnveloper) MethodName() string              { return "f" }
func (failingEnveloper) EnvelopeType() wire.EnvelopeType { return wire.Reply }
func (failingEnveloper) Encode(sw stream.Writer) error {
	sw.WriteStructBegin()
	return errors.New("the reply's body does not encode")
}

// nestingEnveloper runs `during` in the middle of encoding its body.
type nestingEnveloper struct {
	genericEnveloper
	during func()
}

func (n *nestingEnveloper) Encode(sw stream.Writer) error {
	n.during()
	return n.genericEnveloper.Encode(sw)
}

func c12ClientServer(res *world.Result, logf func(string, ...interface{}), h *world.Hasher, overPipe bool) {
	failedReplyBefore(res)
	if !overPipe && nestedReplies(res, logf) {
		return
	}
	req := genRequest()
	// the server's expectation: mostly the request's own type
	et := req.Type
	mismatch := false
	if simrt.Flip("cs.wrong-type", 0.2) {
		et = envTypes[ch("cs.expected-type", len(envTypes))]
		mismatch = et != req.Type && req.F != frBare
	}
	b := req.encode()
	replyType := []int8{2, 3}[ch("cs.reply-type", 2)]
	replyBody := genVal(ref.TStruct, 0, genOpts{maxDepth: 2})
	logf("client/server: %s; server expects type %d; reply type %d body %s", req, et, replyType, replyBody)
	var out reqOutcome
	tag := ""
	var reply []byte
	var werr error
	if overPipe {
		tag = "ReadRequest over a live pipe"
		up := simrt.NewPipe("c2s")
		down := simrt.NewPipe("s2c")
		upR, upW := &simrt.PipeReader{P: up, Tag: "c2s.r"}, &simrt.PipeWriter{P: up, Tag: "c2s.w"}
		downR, downW := &simrt.PipeReader{P: down, Tag: "s2c.r"}, &simrt.PipeWriter{P: down, Tag: "s2c.w"}
		simrt.GoNamed("server", func() {
			out = readRequest(et, upR, nil)
			if out.ok {
				if rw, ok := out.resp.(stream.ResponseWriter); ok {
					werr = rw.WriteResponse(wire.EnvelopeType(replyType), downW, &genericEnveloper{Body: replyBody})
				}
			}
			downW.Close()
			upR.Close()
		})
		// client: write the request in seeded chunks, then read the reply to EOF
		rest := b
		for len(rest) > 0 {
			n := len(rest)
			if k := simrt.ChoiceBias("cs.write-chunk", n, 0.4); k > 0 {
				n = k
			}
			if _, err := upW.Write(rest[:n]); err != nil {
				break
			}
			rest = rest[n:]
		}
		upW.Close()
		var buf [512]byte
		for {
			n, err := downR.Read(buf[:])
			reply = append(reply, buf[:n]...)
			if err != nil {
				break
			}
		}
		downR.Close()
	} else if ch("cs.api", 2) == 0 {
		tag = "DecodeRequest"
		plan := simio.GenPlan(len(b), false)
		out = decodeRequest(et, b, plan)
		pipelined(res)
		if out.ok {
			w := simio.NewWriter(-1)
			if r, ok := out.resp.(binary.Responder); ok {
				werr = r.EncodeResponse(refwire.ToWire(replyBody), wire.EnvelopeType(replyType), w)
			}
			reply = w.Buf
		}
	} else {
		// the request may start in the middle of the underlying reader
		data := b
		start := 0
		if simrt.Flip("cs.prefix", 0.3) {
			start = 1 + ch("cs.prefix-len", 7)
			data = append(bytes.Repeat([]byte{0x5a}, start), b...)
		}
		plan := simio.GenPlan(len(data), false)
		plan.Start = start
		tag = "ReadRequest over " + plan.String()
		r, raw := simio.NewReader(data, plan)
		raw.Budget = budgetFor(len(data))
		out = readRequest(et, r, raw)
		pipelined(res)
		if out.panic == "" && !out.budget && simrt.Flip("cs.skip-body", 0.35) {
			// a server that does not care for the body skips it: same verdict, same responder
			plan2 := simio.GenPlan(len(data), false)
			plan2.Start = start
			r2, raw2 := simio.NewReader(data, plan2)
			raw2.Budget = budgetFor(len(data))
			sk := readRequestSkipping(et, r2)
			res.Count("c12.requests-read-with-a-skipping-body-reader", 1)
			if sk.panic != "" {
				res.Failf("C12/panic", "ReadRequest (body skipped) over %s panicked on %s: %s", plan2, req, sk.panic)
				return
			}
			if sk.ok != out.ok || (sk.ok && (sk.kind != out.kind || sk.name != out.name || sk.seqid != out.seqid)) {
				res.Failf("C12/skip-body-disagrees", "%s: body decoded -> %s, body skipped (over %s) -> %s", req, out, plan2, sk)
				return
			}
		}
		if out.ok {
			w := simio.NewWriter(-1)
			if rw, ok := out.resp.(stream.ResponseWriter); ok {
				werr = rw.WriteResponse(wire.EnvelopeType(replyType), w, &genericEnveloper{Body: replyBody})
			}
			reply = w.Buf
		}
	}
	logf("%s -> %s; reply %d bytes, write error %v", tag, out, len(reply), werr)
	h.Str(out.String())
	if out.panic != "" {
		res.Failf("C12/panic", "%s panicked on %s: %s", tag, req, out.panic)
		return
	}
	if out.budget {
		res.Failf("C12/budget", "%s exceeded its reader-call budget on %s", tag, req)
		return
	}
	if mismatch {
		if out.ok {
			res.Failf("C12/wrong-type-accepted", "%s accepted a %s envelope of type %d although the server expects %d", tag, req.F, req.Type, et)
		}
		res.Count("c12.wrong-type-checked", 1)
		return
	}
	if !out.ok {
		res.Failf("C12/request-rejected", "%s rejected a valid %s: %s", tag, req, out)
		return
	}
	if out.kind != wantKind(req.F) {
		res.Failf("C12/framing-detected", "%s classified a %s request as %s", tag, req.F, out.kind)
		return
	}
	if req.F != frBare && (out.name != req.Name || out.seqid != req.SeqID) {
		res.Failf("C12/responder-fields", "%s: responder carries name=%q seqid=%d, request had name=%q seqid=%d", tag, first(out.name, 24), out.seqid, first(req.Name, 24), req.SeqID)
	}
	if !bytes.Equal(ref.Encode(nil, out.body), ref.Encode(nil, req.Body)) {
		res.Failf("C12/body", "%s decoded body %s, sent %s", tag, out.body, req.Body)
	}
	if werr != nil {
		res.Failf("C12/reply-write", "%s: writing the reply failed: %v", tag, werr)
		return
	}
	checkReply(res, tag, req, reply, replyType, replyBody)
	res.Count("c12.exchanges."+req.F.String(), 1)
}

func c12Agreement(res *world.Result, logf func(string, ...interface{}), h *world.Hasher, o world.Opts) {
	req := genRequest()
	et := req.Type
	if simrt.Flip("ag.other-type", 0.15) {
		et = envTypes[ch("ag.expected-type", len(envTypes))]
	}
	var b []byte
	desc := "valid"
	switch simrt.ChoiceBias("ag.kind", 3, 0.3) {
	case 0:
		b = req.encode()
	case 1:
		var m ref.Marks
		b = req.encode()
		// marks of the body only are unknown here; mutate bytes generically and the header specifically
		n := 1 + ch("ag.mutations", 3)
		for i := 0; i < n; i++ {
			var name string
			b, name = mutate(b, &m, 1<<20+2)
			desc += "+" + name
		}
	default:
		b = randomBytes()
		desc = "random"
	}
	if len(b) >= 4 && simrt.Flip("ag.zero-first-word", 0.03) {
		// a first word of zero: a legacy envelope whose name is empty, or nothing at all
		b = append([]byte{0, 0, 0, 0}, b[4:]...)
		desc += "+zero-first-word"
	}
	logf("agreement: expected type %d, %d bytes (%s): %x", et, len(b), desc, clip(b, 96))
	full := simio.Plan{TruncAt: -1, ErrAt: -1}
	r1 := decodeRequest(et, b, full)
	fr, fraw := simio.NewReader(b, full)
	fraw.Budget = budgetFor(len(b))
	r2 := readRequest(et, fr, fraw)
	logf("DecodeRequest -> %s", r1)
	logf("ReadRequest (full delivery) -> %s", r2)
	// the same bytes behind a buffered reader (which offers Peek) of a small or ordinary size
	br, _ := simio.NewReader(b, full)
	r3 := readRequest(et, bufio.NewReaderSize(br, []int{16, 4096}[ch("c12.bufio-size", 2)]), nil)
	if r3.panic != "" {
		res.Failf("C12/panic", "ReadRequest through a bufio.Reader panicked on %x: %s", clip(b, 64), r3.panic)
		return
	}
	if r2.panic == "" && !r2.budget && (r3.ok != r2.ok || (r3.ok && (r3.kind != r2.kind || r3.name != r2.name || r3.seqid != r2.seqid || !bytes.Equal(ref.Encode(nil, r3.body), ref.Encode(nil, r2.body))))) {
		res.Failf("C12/buffered-reader-disagrees", "%x: ReadRequest over the plain reader -> %s, through a bufio.Reader -> %s", clip(b, 64), r2, r3)
		return
	}
	h.Str(r1.String())
	h.Str(r2.String())
	for _, x := range []struct {
		n string
		o reqOutcome
	}{{"DecodeRequest", r1}, {"ReadRequest", r2}} {
		if x.o.panic != "" {
			res.Failf("C12/panic", "%s panicked on %x: %s", x.n, clip(b, 64), x.o.panic)
			return
		}
		if x.o.budget {
			res.Failf("C12/budget", "%s exceeded its reader-call budget on %x", x.n, clip(b, 64))
			return
		}
	}
	same := func(a, c reqOutcome) string {
		if a.kind != c.kind {
			return fmt.Sprintf("responder kinds differ: %s vs %s", a.kind, c.kind)
		}
		if a.name != c.name || a.seqid != c.seqid {
			return fmt.Sprintf("responder fields differ: %q/%d vs %q/%d", first(a.name, 24), a.seqid, first(c.name, 24), c.seqid)
		}
		if !bytes.Equal(ref.Encode(nil, a.body), ref.Encode(nil, c.body)) {
			return fmt.Sprintf("bodies differ: %s vs %s", a.body, c.body)
		}
		return ""
	}
	if r1.ok && !r2.ok {
		res.Failf("C12/stream-api-rejects", "DecodeRequest accepts %x (%s) but ReadRequest rejects it: %s", clip(b, 64), r1, r2)
	}
	if r1.ok && r2.ok {
		if d := same(r1, r2); d != "" {
			res.Failf("C12/api-disagreement", "both APIs accept %x but %s", clip(b, 64), d)
		}
		res.Count("c12.agreement.both-accept", 1)
	} else if !r1.ok && !r2.ok {
		res.Count("c12.agreement.both-reject", 1)
	} else if r2.ok {
		res.Count("c12.agreement.only-stream-accepts", 1)
	}
	// schedule independence and faults
	D := 4
	if o.Tier == "thorough" {
		D = 8
	}
	for d := 0; d < D; d++ {
		faulted := d%2 == 1 && r2.ok
		plan := simio.GenPlan(len(b), faulted)
		r, raw := simio.NewReader(b, plan)
		raw.Budget = budgetFor(len(b))
		got := readRequest(et, r, raw)
		logf("ReadRequest over %s -> %s", plan, got)
		h.Str(got.String())
		if got.panic != "" {
			res.Failf("C12/panic", "ReadRequest over %s panicked on %x: %s", plan, clip(b, 64), got.panic)
			return
		}
		if got.budget {
			res.Failf("C12/budget", "ReadRequest over %s exceeded its reader-call budget on %x", plan, clip(b, 64))
			return
		}
		expect := r2
		if plan.TruncAt >= 0 && plan.TruncAt < len(b) {
			// A stream that ends early is a different (shorter) input, and the
			// framing rules look at its length: the expectation is what full
			// delivery of that shorter input gives.
			k := plan.TruncAt
			tr, traw := simio.NewReader(b[:k], full)
			traw.Budget = budgetFor(k)
			expect = readRequest(et, tr, traw)
			if expect.panic != "" || expect.budget {
				res.Failf("C12/panic", "ReadRequest on %x: %s", clip(b[:k], 64), expect)
				return
			}
			if k >= 2 && int64(k) < r2.used && got.ok {
				res.Failf("C12/fault-accepted", "ReadRequest over %s succeeded although the stream ended at %d inside the %d-byte request", plan, k, r2.used)
				continue
			}
			res.Count("c12.agreement.truncated-stream-compared", 1)
		}
		if plan.ErrAt >= 0 && plan.ErrAt <= len(b) {
			k := int64(plan.ErrAt)
			switch {
			case k < 2 || (k == r2.used && r2.used < 2):
				// an I/O error while peeking at the framing: the property does not say
				// whether the request is then served or refused
				continue
			case r2.ok && k < r2.used:
				if got.ok {
					res.Failf("C12/fault-accepted", "ReadRequest over %s succeeded although reads fail from offset %d inside the %d-byte request", plan, k, r2.used)
				}
				continue
			case !r2.ok:
				if got.ok {
					res.Failf("C12/fault-accepted", "ReadRequest over %s accepted an input that full delivery rejects", plan)
				}
				continue
			}
		}
		if got.ok != expect.ok {
			res.Failf("C12/segmentation-dependent", "ReadRequest over %s -> %s, but with full delivery -> %s (input %x)", plan, got, expect, clip(b, 64))
			continue
		}
		if got.ok {
			if dd := same(got, expect); dd != "" {
				res.Failf("C12/segmentation-dependent", "ReadRequest over %s vs full delivery: %s", plan, dd)
			}
		}
	}
}
