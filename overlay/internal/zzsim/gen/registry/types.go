// Package registry lists the struct-like types of the regenerated schema
// corpus (registry.go is written by the builder).
package registry

import (
	"go.uber.org/thriftrw/protocol/stream"
	"go.uber.org/thriftrw/wire"
)

// Generated is what every generated struct-like type offers.
type Generated interface {
	ToWire() (wire.Value, error)
	FromWire(wire.Value) error
	Encode(stream.Writer) error
	Decode(stream.Reader) error
	String() string
}

type Entry struct {
	Name string
	New  func() Generated
}

var Types []Entry
