// emitschemas writes N seeded random Thrift programs (one directory each) for
// the generated-code corpus of the wire-world checks.
package main

import (
	"flag"
	"fmt"
	"os"
	"path/filepath"

	"go.uber.org/thriftrw/internal/zzsim/progen"
	"go.uber.org/thriftrw/internal/zzsim/simrt"
)

func main() {
	seed := flag.Uint64("seed", 1, "VERIF_SEED")
	n := flag.Int("n", 4, "number of programs")
	out := flag.String("out", "", "output directory")
	flag.Parse()
	for i := 0; i < *n; i++ {
		s := simrt.New(simrt.Config{Seed: simrt.Derive(*seed, 0x5c4e, uint64(i))})
		var p *progen.Program
		s.Inline(func() {
			p = progen.Gen(progen.Options{MaxFiles: 2, MaxDefs: 7, Unions: true, Exceptions: true, Defaults: true, Consts: true, ConstRefs: true,
				WantService: true, SameNames: false, Unhashable: true, Annotations: true})
		})
		dir := filepath.Join(*out, fmt.Sprintf("r%d", i))
		for k, f := range p.Files {
			path := filepath.Join(dir, filepath.FromSlash(f.RelPath()))
			if err := os.MkdirAll(filepath.Dir(path), 0755); err != nil {
				fmt.Fprintln(os.Stderr, err)
				os.Exit(1)
			}
			if err := os.WriteFile(path, []byte(p.Render(k)), 0644); err != nil {
				fmt.Fprintln(os.Stderr, err)
				os.Exit(1)
			}
		}
		fmt.Printf("%s\t%s\n", dir, filepath.Join(dir, filepath.FromSlash(p.Files[0].RelPath())))
	}
}
