package wirew

import (
	"errors"
	"fmt"
	"math"

	"go.uber.org/thriftrw/internal/zzsim/ref"
	"go.uber.org/thriftrw/protocol/stream"
	"go.uber.org/thriftrw/wire"
)

var errDepth = errors.New("harness: nesting too deep")

// streamDecode is the harness's schema-less decoder over the public
// stream.Reader primitives. It never pre-sizes from a declared count.
func streamDecode(sr stream.Reader, t wire.Type, depth int) (ref.Val, error) {
	if depth > 2000 {
		return ref.Val{}, errDepth
	}
	switch t {
	case wire.TBool:
		b, err := sr.ReadBool()
		return ref.Bool(b), err
	case wire.TI8:
		v, err := sr.ReadInt8()
		return ref.I8(v), err
	case wire.TI16:
		v, err := sr.ReadInt16()
		return ref.I16(v), err
	case wire.TI32:
		v, err := sr.ReadInt32()
		return ref.I32(v), err
	case wire.TI64:
		v, err := sr.ReadInt64()
		return ref.I64(v), err
	case wire.TDouble:
		v, err := sr.ReadDouble()
		return ref.Val{T: ref.TDouble, I: int64(math.Float64bits(v))}, err
	case wire.TBinary:
		b, err := sr.ReadBinary()
		return ref.Bin(b), err
	case wire.TStruct:
		out := ref.Val{T: ref.TStruct}
		if err := sr.ReadStructBegin(); err != nil {
			return out, err
		}
		for {
			fh, ok, err := sr.ReadFieldBegin()
			if err != nil {
				return out, err
			}
			if !ok {
				break
			}
			v, err := streamDecode(sr, fh.Type, depth+1)
			if err != nil {
				return out, err
			}
			out.Fields = append(out.Fields, ref.Field{ID: fh.ID, V: v})
			if err := sr.ReadFieldEnd(); err != nil {
				return out, err
			}
		}
		return out, sr.ReadStructEnd()
	case wire.TList:
		lh, err := sr.ReadListBegin()
		if err != nil {
			return ref.Val{}, err
		}
		out := ref.Val{T: ref.TList, VT: byte(lh.Type)}
		for i := 0; i < lh.Length; i++ {
			v, err := streamDecode(sr, lh.Type, depth+1)
			if err != nil {
				return out, err
			}
			out.Items = append(out.Items, v)
		}
		return out, sr.ReadListEnd()
	case wire.TSet:
		sh, err := sr.ReadSetBegin()
		if err != nil {
			return ref.Val{}, err
		}
		out := ref.Val{T: ref.TSet, VT: byte(sh.Type)}
		for i := 0; i < sh.Length; i++ {
			v, err := streamDecode(sr, sh.Type, depth+1)
			if err != nil {
				return out, err
			}
			out.Items = append(out.Items, v)
		}
		return out, sr.ReadSetEnd()
	case wire.TMap:
		mh, err := sr.ReadMapBegin()
		if err != nil {
			return ref.Val{}, err
		}
		out := ref.Val{T: ref.TMap, KT: byte(mh.KeyType), VT: byte(mh.ValueType)}
		for i := 0; i < mh.Length; i++ {
			k, err := streamDecode(sr, mh.KeyType, depth+1)
			if err != nil {
				return out, err
			}
			v, err := streamDecode(sr, mh.ValueType, depth+1)
			if err != nil {
				return out, err
			}
			out.Items = append(out.Items, k, v)
		}
		return out, sr.ReadMapEnd()
	}
	return ref.Val{}, fmt.Errorf("harness: unknown type %d", t)
}

// streamEncode writes v through the public stream.Writer primitives.
func streamEncode(sw stream.Writer, v ref.Val) error {
	switch v.T {
	case ref.TBool:
		return sw.WriteBool(v.I != 0)
	case ref.TI8:
		return sw.WriteInt8(int8(v.I))
	case ref.TI16:
		return sw.WriteInt16(int16(v.I))
	case ref.TI32:
		return sw.WriteInt32(int32(v.I))
	case ref.TI64:
		return sw.WriteInt64(v.I)
	case ref.TDouble:
		return sw.WriteDouble(math.Float64frombits(uint64(v.I)))
	case ref.TBinary:
		return sw.WriteBinary(v.B)
	case ref.TStruct:
		if err := sw.WriteStructBegin(); err != nil {
			return err
		}
		for _, f := range v.Fields {
			if err := sw.WriteFieldBegin(stream.FieldHeader{ID: f.ID, Type: wire.Type(f.V.T)}); err != nil {
				return err
			}
			if err := streamEncode(sw, f.V); err != nil {
				return err
			}
			if err := sw.WriteFieldEnd(); err != nil {
				return err
			}
		}
		return sw.WriteStructEnd()
	case ref.TList:
		if err := sw.WriteListBegin(stream.ListHeader{Type: wire.Type(v.VT), Length: len(v.Items)}); err != nil {
			return err
		}
		for _, it := range v.Items {
			if err := streamEncode(sw, it); err != nil {
				return err
			}
		}
		return sw.WriteListEnd()
	case ref.TSet:
		if err := sw.WriteSetBegin(stream.SetHeader{Type: wire.Type(v.VT), Length: len(v.Items)}); err != nil {
			return err
		}
		for _, it := range v.Items {
			if err := streamEncode(sw, it); err != nil {
				return err
			}
		}
		return sw.WriteSetEnd()
	case ref.TMap:
		if err := sw.WriteMapBegin(stream.MapHeader{KeyType: wire.Type(v.KT), ValueType: wire.Type(v.VT), Length: len(v.Items) / 2}); err != nil {
			return err
		}
		for _, it := range v.Items {
			if err := streamEncode(sw, it); err != nil {
				return err
			}
		}
		return sw.WriteMapEnd()
	}
	return fmt.Errorf("harness: cannot encode type %d", v.T)
}

// genericBody is a stream.BodyReader that decodes a struct into a ref.Val.
type genericBody struct {
	V      ref.Val
	Err    error
	Ignore bool // leave the body unread
}

func (g *genericBody) Decode(sr stream.Reader) error {
	if g.Ignore {
		return nil // a handler that has no use for its arguments reads nothing
	}
	g.V, g.Err = streamDecode(sr, wire.TStruct, 0)
	return g.Err
}

// genericEnveloper is a stream.Enveloper writing a ref.Val body.
type genericEnveloper struct {
	Name string
	Type wire.EnvelopeType
	Body ref.Val
}

func (g *genericEnveloper) MethodName() string              { return g.Name }
func (g *genericEnveloper) EnvelopeType() wire.EnvelopeType { return g.Type }
func (g *genericEnveloper) Encode(sw stream.Writer) error   { return streamEncode(sw, g.Body) }
