package main

import (
	"encoding/json"
	"fmt"
	"os"
	"os/exec"
	"path/filepath"
	"regexp"
	"runtime"
	"sort"
	"strconv"
	"strings"
	"sync"
	"time"
)

// Spec of one property's check.
type Spec struct {
	Prop     string
	Engine   string // plugin-world | wire-world | order-world
	Level    string
	Binary   string // "root" or "tb"
	Quick    Tier
	Thorough Tier
	Rule     string
	RealComp []string
	StubComp []string
	Assume   []string
	Kinds    []string // run kinds executed as separate batches ("" = single)
	Race     bool     // thorough tier also runs a -race batch
	Corpus   bool     // needs the regenerated schema corpus
}

type Tier struct {
	Count         int     // seeded runs
	Floor         bool    // systematic floor
	BudgetS       float64 // wall-clock cap per worker for the seeded part
	StepCap       int64
	RaceCount     int // seeded runs of the -race batch (0 = none)
	Fidelity      int // scenarios of the stub-fidelity cross-check run first (0 = none)
	RandomSchemas int // seeded random programs added to the generated-code corpus
}

// Job / Output mirror the worker's types (overlay/internal/zzsim/zzmain).
type Job struct {
	Prop     string   `json:"prop"`
	Tier     string   `json:"tier"`
	Mode     string   `json:"mode"`
	Seed     uint64   `json:"seed"`
	Worker   int      `json:"worker"`
	Stride   int      `json:"stride"`
	Count    int      `json:"count"`
	Floor    bool     `json:"floor"`
	Kind     string   `json:"kind"`
	TmpDir   string   `json:"tmp"`
	Out      string   `json:"out"`
	BudgetS  float64  `json:"budget_s"`
	Replay   []int32  `json:"replay,omitempty"`
	Samples  int      `json:"samples"`
	MaxViol  int      `json:"max_violations"`
	ShrinkS  float64  `json:"shrink_s"`
	Repeat   int      `json:"repeat"`
	StepCap  int64    `json:"step_cap"`
	FirstIdx int      `json:"first_index"`
	OnlyCell int      `json:"only_cell"`
	MaxProcs int      `json:"-"` // GOMAXPROCS of the worker process (0 = 2)
	Known    []KnownJ `json:"known,omitempty"`
}

type KnownJ struct {
	ID       string `json:"id"`
	Check    string `json:"check"`
	MsgRegex string `json:"msg_regex"`
}

type Failure struct {
	Check string
	Msg   string
}

type Violation struct {
	Check     string   `json:"check"`
	Msg       string   `json:"msg"`
	Seed      uint64   `json:"seed"`
	Index     int      `json:"index"`
	Cell      int      `json:"cell"`
	RunSeed   uint64   `json:"run_seed"`
	Choices   []int32  `json:"choices"`
	OrigLen   int      `json:"original_choices"`
	ShrinkRun int      `json:"shrink_executions"`
	Trace     []string `json:"trace"`
	AllChecks []string `json:"all_checks"`
	Kind      string   `json:"kind"`
}

type Output struct {
	Prop        string            `json:"prop"`
	Worker      int               `json:"worker"`
	Runs        int64             `json:"runs"`
	Nontrivial  int64             `json:"nontrivial"`
	Keys        []uint64          `json:"keys"`
	SchedHashes []uint64          `json:"sched_hashes"`
	MapHashes   []uint64          `json:"map_hashes"`
	Steps       int64             `json:"steps"`
	Switches    int64             `json:"switches"`
	Counts      map[string]int64  `json:"counts"`
	Probes      map[string]int64  `json:"probes"`
	Violations  []Violation       `json:"violations"`
	Samples     []interface{}     `json:"samples"`
	Hashes      map[string]uint64 `json:"hashes,omitempty"`
	Notes       []string          `json:"notes"`
	Stopped     string            `json:"stopped"`
	WallS       float64           `json:"wall_s"`
	Aborted     int64             `json:"aborted_runs"`
	Diverged    []string          `json:"diverged,omitempty"`
	KnownHits   map[string]int64  `json:"known_hits,omitempty"`
	KnownSample map[string]string `json:"known_sample,omitempty"`
	ReplayFails []Failure         `json:"replay_failures,omitempty"`
	ReplayTrace []string          `json:"replay_trace,omitempty"`
}

// ReplayFile is what a violation is written out as.
type ReplayFile struct {
	Property      string   `json:"property"`
	Check         string   `json:"check"`
	Message       string   `json:"message"`
	Kind          string   `json:"kind"`
	Seed          uint64   `json:"verif_seed"`
	RunSeed       uint64   `json:"run_seed"`
	Index         int      `json:"index"`
	Cell          int      `json:"cell"`
	Mode          string   `json:"mode"` // "choices" or "seed" (process crash before the choices could be recorded)
	Choices       []int32  `json:"choices"`
	OrigLen       int      `json:"original_choice_count"`
	Shrink        int      `json:"shrink_executions"`
	Trace         []string `json:"trace"`
	Race          bool     `json:"race_build"`
	RandomSchemas int      `json:"random_schemas"` // the corpus this replay needs (registry indexes depend on it)
}

type KnownFinding struct {
	ID        string   `json:"id"`
	Property  string   `json:"property"`
	Status    string   `json:"status"` // open | fixed
	Check     string   `json:"check"`
	TraceAll  []string `json:"trace_all,omitempty"`  // regexps; each must match some trace line
	TraceNone []string `json:"trace_none,omitempty"` // regexps; none may match any trace line
	MsgRegex  string   `json:"msg_regex,omitempty"`  // regexp over the failure message: lets the worker recognise the finding without shrinking it
	What      string   `json:"what"`
	Commit    string   `json:"commit,omitempty"`
}

func loadKnown() []KnownFinding {
	data, err := os.ReadFile(filepath.Join(verifDir, "known_findings.json"))
	if err != nil {
		return nil
	}
	var k []KnownFinding
	if err := json.Unmarshal(data, &k); err != nil {
		fmt.Fprintln(os.Stderr, "known_findings.json:", err)
		os.Exit(2)
	}
	return k
}

func (k *KnownFinding) matches(prop string, v *Violation) bool {
	if k.Status != "open" || k.Property != prop {
		return false
	}
	inList := false
	for _, c := range strings.Split(k.Check, "|") {
		if c == v.Check {
			inList = true
		}
	}
	if !inList {
		return false
	}
	if k.MsgRegex != "" && !regexp.MustCompile(k.MsgRegex).MatchString(v.Msg) {
		return false
	}
	lines := append([]string{v.Msg}, v.Trace...)
	for _, re := range k.TraceAll {
		rx := regexp.MustCompile(re)
		ok := false
		for _, l := range lines {
			if rx.MatchString(l) {
				ok = true
				break
			}
		}
		if !ok {
			return false
		}
	}
	for _, re := range k.TraceNone {
		rx := regexp.MustCompile(re)
		for _, l := range lines {
			if rx.MatchString(l) {
				return false
			}
		}
	}
	return true
}

func verifSeed() uint64 {
	if s := os.Getenv("VERIF_SEED"); s != "" {
		if v, err := strconv.ParseUint(s, 10, 64); err == nil {
			return v
		}
		if v, err := strconv.ParseInt(s, 10, 64); err == nil {
			return uint64(v)
		}
	}
	return 1
}

func nWorkers() int {
	n := runtime.NumCPU()
	if s := os.Getenv("VSIM_WORKERS"); s != "" {
		if v, err := strconv.Atoi(s); err == nil && v > 0 {
			n = v
		}
	}
	if n > 16 {
		n = 16
	}
	return n
}

func tmpBase(b *Build) string {
	if fi, err := os.Stat("/dev/shm"); err == nil && fi.IsDir() {
		d := fmt.Sprintf("/dev/shm/vsim-%d", os.Getpid())
		if os.MkdirAll(d, 0755) == nil {
			return d
		}
	}
	d := filepath.Join(b.Dir, "tmp")
	os.MkdirAll(d, 0755)
	return d
}

// runWorkers runs one batch of workers and returns their outputs. A worker
// that dies is reported in crashed (index of the run in progress, if known).
// apiVersionEnv carries the API_VERSION of the tree under test to the workers.
var apiVersionEnv string

func runWorkers(bin string, jobs []Job, dir string, env []string, timeout time.Duration) ([]*Output, []string, error) {
	os.MkdirAll(dir, 0755)
	outs := make([]*Output, len(jobs))
	var crashed []string
	var mu sync.Mutex
	var wg sync.WaitGroup
	var firstErr error
	for i := range jobs {
		wg.Add(1)
		go func(i int) {
			defer wg.Done()
			j := jobs[i]
			jp := filepath.Join(dir, fmt.Sprintf("job-%s-%d.json", j.Kind, j.Worker))
			j.Out = filepath.Join(dir, fmt.Sprintf("out-%s-%d.json", j.Kind, j.Worker))
			os.Remove(j.Out)
			data, _ := json.Marshal(j)
			os.WriteFile(jp, data, 0644)
			cmd := exec.Command(bin, "-test.run", "^$")
			mp := j.MaxProcs
			if mp == 0 {
				mp = 2
			}
			cmd.Env = append(append([]string{}, env...), "VSIM_WORKER=1", "VSIM_JOB="+jp, fmt.Sprintf("GOMAXPROCS=%d", mp), "GOTRACEBACK=single")
			if apiVersionEnv != "" {
				cmd.Env = append(cmd.Env, "VSIM_API_VERSION="+apiVersionEnv)
			}
			logf := filepath.Join(dir, fmt.Sprintf("log-%s-%d.txt", j.Kind, j.Worker))
			lf, _ := os.Create(logf)
			cmd.Stdout = lf
			cmd.Stderr = lf
			done := make(chan error, 1)
			if err := cmd.Start(); err != nil {
				mu.Lock()
				firstErr = err
				mu.Unlock()
				return
			}
			go func() { done <- cmd.Wait() }()
			var err error
			select {
			case err = <-done:
			case <-time.After(timeout):
				cmd.Process.Kill()
				<-done
				err = fmt.Errorf("worker %d timed out after %v (watchdog)", j.Worker, timeout)
				mu.Lock()
				if firstErr == nil {
					firstErr = err
				}
				mu.Unlock()
				lf.Close()
				return
			}
			lf.Close()
			data, rerr := os.ReadFile(j.Out)
			if err != nil || rerr != nil {
				lg, _ := os.ReadFile(logf)
				pg, _ := os.ReadFile(j.Out + ".progress")
				mu.Lock()
				crashed = append(crashed, fmt.Sprintf("worker %d (%s): %v\nPROGRESS %s\n%s", j.Worker, j.Kind, err, strings.TrimSpace(strings.SplitN(string(pg), "\n", 2)[0]), tail(string(lg), 20000)))
				mu.Unlock()
				return
			}
			var o Output
			if jerr := json.Unmarshal(data, &o); jerr != nil {
				mu.Lock()
				crashed = append(crashed, fmt.Sprintf("worker %d: bad output: %v", j.Worker, jerr))
				mu.Unlock()
				return
			}
			outs[i] = &o
		}(i)
	}
	wg.Wait()
	return outs, crashed, firstErr
}

type agg struct {
	runs, nontrivial, steps, switches, aborted int64
	keys, sched, maps                          map[uint64]struct{}
	counts, probes                             map[string]int64
	violations                                 []Violation
	samples                                    []interface{}
	notes                                      []string
	stopped                                    []string
	wall                                       float64
	knownHits                                  map[string]int64
	knownSample                                map[string]string
}

func newAgg() *agg {
	return &agg{keys: map[uint64]struct{}{}, sched: map[uint64]struct{}{}, maps: map[uint64]struct{}{}, counts: map[string]int64{}, probes: map[string]int64{}}
}

func (a *agg) add(o *Output) {
	if o == nil {
		return
	}
	a.runs += o.Runs
	a.nontrivial += o.Nontrivial
	a.steps += o.Steps
	a.switches += o.Switches
	a.aborted += o.Aborted
	for _, k := range o.Keys {
		a.keys[k] = struct{}{}
	}
	for _, k := range o.SchedHashes {
		a.sched[k] = struct{}{}
	}
	for _, k := range o.MapHashes {
		a.maps[k] = struct{}{}
	}
	for k, v := range o.Counts {
		a.counts[k] += v
	}
	for k, v := range o.Probes {
		a.probes[k] += v
	}
	for id, n := range o.KnownHits {
		if a.knownHits == nil {
			a.knownHits = map[string]int64{}
			a.knownSample = map[string]string{}
		}
		a.knownHits[id] += n
		if a.knownSample[id] == "" {
			a.knownSample[id] = o.KnownSample[id]
		}
	}
	a.violations = append(a.violations, o.Violations...)
	for _, s := range o.Samples {
		if len(a.samples) < 4 && s != nil {
			a.samples = append(a.samples, s)
		}
	}
	for _, n := range o.Notes {
		if len(a.notes) < 20 {
			a.notes = append(a.notes, n)
		}
	}
	if o.Stopped != "" {
		a.stopped = append(a.stopped, fmt.Sprintf("worker %d: %s", o.Worker, o.Stopped))
	}
	if o.WallS > a.wall {
		a.wall = o.WallS
	}
}

func runCheck(prop, tier, replayPath string) int {
	start := time.Now()
	spec, ok := specs[prop]
	if !ok {
		fmt.Fprintf(os.Stderr, "unknown property %q (claimed: %v)\n", prop, specNames())
		return 2
	}
	seed := verifSeed()
	fmt.Printf("VERIF_SEED=%d property=%s tier=%s\n", seed, prop, tier)
	if t := os.Getenv("VERIF_TIER"); t != "" && replayPath == "" && (t == "quick" || t == "thorough") && tier == "" {
		tier = t
	}

	var rf *ReplayFile
	if replayPath != "" {
		data, err := os.ReadFile(replayPath)
		if err != nil {
			fmt.Fprintln(os.Stderr, "cannot read replay file:", err)
			return 2
		}
		rf = &ReplayFile{}
		if err := json.Unmarshal(data, rf); err != nil {
			fmt.Fprintln(os.Stderr, "bad replay file:", err)
			return 2
		}
	}

	randomSchemas := 0
	if tier == "thorough" {
		randomSchemas = spec.Thorough.RandomSchemas
	} else if tier == "quick" {
		randomSchemas = spec.Quick.RandomSchemas
	}
	if v, err := strconv.Atoi(os.Getenv("VSIM_RANDOM_SCHEMAS")); err == nil {
		randomSchemas = v // development: try the random-schema corpus in any tier
	}
	if rf != nil {
		randomSchemas = rf.RandomSchemas
	}
	b, err := PrepareBuild(buildOpts{Tag: prop, NeedRoot: spec.Binary == "root", NeedTB: spec.Binary == "tb", Race: rf != nil && rf.Race, Corpus: spec.Corpus,
		RandomSchemas: randomSchemas, ExtraSeed: func() uint64 {
			if rf != nil {
				return rf.Seed
			}
			return seed
		}()})
	defer b.Cleanup()
	if err != nil {
		fmt.Fprintln(os.Stderr, "BUILD FAILED (exit 2, not a violation):", err)
		return 2
	}
	bin := b.SimTest
	if spec.Binary == "tb" {
		bin = b.TBTest
	}
	tmp := tmpBase(b)
	defer os.RemoveAll(tmp)
	env := goEnv()

	if rf != nil {
		return doReplay(spec, b, bin, tmp, env, rf, replayPath)
	}

	t := spec.Quick
	if tier == "thorough" {
		t = spec.Thorough
	}
	nw := nWorkers()
	a := newAgg()
	var knownJobs []KnownJ
	for _, k := range loadKnown() {
		if k.Status == "open" && k.Property == prop && k.MsgRegex != "" {
			knownJobs = append(knownJobs, KnownJ{ID: k.ID, Check: k.Check, MsgRegex: k.MsgRegex})
		}
	}
	kinds := spec.Kinds
	if len(kinds) == 0 {
		kinds = []string{""}
	}
	fidelityAgreed := int64(-1)
	if t.Fidelity > 0 {
		n, bad, ferr := runFidelity(bin, b, tmp, env, seed, t.Fidelity, nw)
		if ferr != nil {
			fmt.Fprintln(os.Stderr, "STUB-FIDELITY CROSS-CHECK: harness trouble (exit 2):", ferr)
			return 2
		}
		if len(bad) > 0 {
			fmt.Fprintln(os.Stderr, "STUB-FIDELITY CROSS-CHECK FAILED (exit 2: the simulator's stubs disagree with real os/exec and OS pipes; not a violation of the property):")
			for _, m := range bad {
				fmt.Fprintln(os.Stderr, m)
			}
			return 2
		}
		fidelityAgreed = n
		fmt.Printf("stub-fidelity cross-check: %d scenarios executed in the simulator and with real processes agree\n", n)
	}
	type batch struct {
		bin   string
		env   []string
		count int
		floor bool
		race  bool
		label string
	}
	batches := []batch{{bin: bin, env: env, count: t.Count, floor: t.Floor, label: ""}}
	var raceBuild *Build
	if spec.Race && (t.RaceCount > 0 || os.Getenv("VSIM_RACE_TIER") != "") {
		rc := t.RaceCount
		if rc == 0 {
			rc = 4000
		}
		rb, rerr := PrepareBuild(buildOpts{Tag: prop + "-race", NeedRoot: spec.Binary == "root", NeedTB: spec.Binary == "tb", Race: true, Corpus: spec.Corpus, RandomSchemas: randomSchemas, ExtraSeed: seed})
		raceBuild = rb
		defer rb.Cleanup()
		if rerr != nil {
			fmt.Fprintln(os.Stderr, "BUILD FAILED for the race tier (exit 2, not a violation):", rerr)
			return 2
		}
		rbin := rb.SimTest
		if spec.Binary == "tb" {
			rbin = rb.TBTest
		}
		renv := append(append([]string{}, env...), "GORACE=halt_on_error=1 exitcode=66")
		batches = append(batches, batch{bin: rbin, env: renv, count: rc, race: true, label: "race"})
	}
	raceRuns := int64(0)
	for _, bt := range batches {
		var crashedAll []string
		for _, kind := range kinds {
			var jobs []Job
			for w := 0; w < nw; w++ {
				jobs = append(jobs, Job{Prop: prop, Tier: tier, Mode: "search", Seed: seed, Worker: w, Stride: nw, Count: bt.count, Floor: bt.floor,
					Kind: kind, TmpDir: tmp, BudgetS: t.BudgetS, Samples: 1, MaxViol: 2, ShrinkS: 20, StepCap: t.StepCap, Known: knownJobs})
				if bt.race {
					jobs[len(jobs)-1].Seed = seed + 7777 // other seeds than the plain batch
					jobs[len(jobs)-1].ShrinkS = 5
				}
			}
			outs, crashed, werr := runWorkers(bt.bin, jobs, b.Dir+"/"+bt.label, bt.env, time.Duration(t.BudgetS*4+600)*time.Second)
			if werr != nil {
				fmt.Fprintln(os.Stderr, "HARNESS TROUBLE (exit 2):", werr)
				return 2
			}
			for _, o := range outs {
				if bt.race && o != nil {
					raceRuns += o.Runs
					for i := range o.Violations {
						o.Violations[i].Kind = "race-build:" + o.Violations[i].Kind
					}
				}
				a.add(o)
			}
			crashedAll = append(crashedAll, crashed...)
		}
		if len(crashedAll) > 0 {
			// A worker process died: a fatal runtime error that cannot be recovered
			// in-process (stack overflow, "concurrent map writes"), or - in the race
			// build - the race detector halting on a report. Re-run the run that was
			// in flight alone: if the fresh process dies again the crash belongs to
			// that seed and is a violation with a seed-mode replay file; otherwise it
			// is harness trouble.
			confirmed := 0
			for ci, c := range crashedAll {
				var kind string
				var n int
				if i := strings.Index(c, "PROGRESS "); i >= 0 {
					fmt.Sscanf(c[i+9:], "%s %d", &kind, &n)
				}
				if kind == "" || ci >= 2 {
					continue
				}
				job := Job{Prop: prop, Tier: tier, Mode: "search", Seed: seed, Worker: 0, Stride: 1, TmpDir: tmp, Samples: 0, MaxViol: 1, ShrinkS: 5, StepCap: t.StepCap}
				if bt.race {
					job.Seed = seed + 7777
				}
				if kind == "cell" {
					job.OnlyCell = n + 1
				} else {
					job.Count = 1
					job.FirstIdx = n
				}
				job.Kind = ""
				_, again, werr := runWorkers(bt.bin, []Job{job}, b.Dir+"/"+bt.label+fmt.Sprintf("crashcheck%d", ci), bt.env, 5*time.Minute)
				if werr == nil && len(again) > 0 {
					check := prop + "/process-crash"
					msg := "the worker process died while executing this run (fatal runtime error): " + firstLine(tail(again[0], 1500))
					if strings.Contains(again[0], "WARNING: DATA RACE") {
						if !raceInCodeUnderTest(again[0]) {
							fmt.Fprintln(os.Stderr, "RACE REPORT WITH HARNESS FRAMES ONLY (exit 2, harness defect):\n"+tail(again[0], 4000))
							return 2
						}
						check = prop + "/data-race"
						msg = "the race detector reports a data race in code under test under this schedule: " + raceSummary(again[0])
					}
					confirmed++
					v := Violation{Check: check, Msg: msg, Seed: job.Seed, Index: -1, Cell: -1, Kind: "seed:" + kind}
					if bt.race {
						v.Kind = "race-seed:" + kind
					}
					if kind == "cell" {
						v.Cell = n
					} else {
						v.Index = n
					}
					v.Trace = strings.Split(tail(again[0], 12000), "\n")
					a.violations = append(a.violations, v)
				}
			}
			if confirmed == 0 {
				fmt.Fprintln(os.Stderr, "WORKER CRASHED and the crash did not reproduce on the run in flight (exit 2, harness trouble):")
				for _, c := range crashedAll {
					fmt.Fprintln(os.Stderr, c)
				}
				return 2
			}
			a.stopped = append(a.stopped, fmt.Sprintf("%d worker(s) died; their remaining seeds were not run", len(crashedAll)))
		}
	}
	_ = raceBuild
	if fidelityAgreed >= 0 {
		a.counts["traces_validated_against_impl"] = fidelityAgreed
	}
	if raceRuns > 0 {
		a.counts["race-tier.runs (-race build, baton invisible to the detector)"] = raceRuns
	}

	// violations -> replay files, known findings
	known := loadKnown()
	replayDir := filepath.Join(verifDir, "replays")
	if d := os.Getenv("VSIM_EVIDENCE_DIR"); d != "" {
		replayDir = filepath.Join(d, "replays")
	}
	os.MkdirAll(replayDir, 0755)
	sort.SliceStable(a.violations, func(i, j int) bool { return len(a.violations[i].Choices) < len(a.violations[j].Choices) })
	exit := 0
	knownHit := map[string]int{}
	for id, n := range a.knownHits {
		knownHit[id] += int(n)
	}
	seenCheck := map[string]int{}
	var vioLines []string
	for i := range a.violations {
		v := &a.violations[i]
		matched := false
		for k := range known {
			if known[k].matches(prop, v) {
				knownHit[known[k].ID]++
				matched = true
				break
			}
		}
		if matched {
			continue
		}
		seenCheck[v.Check]++
		if seenCheck[v.Check] > 2 {
			continue
		}
		path := filepath.Join(replayDir, fmt.Sprintf("%s-%d-%d.json", prop, seed, len(vioLines)))
		rfile := ReplayFile{Property: prop, Check: v.Check, Message: v.Msg, Kind: v.Kind, Seed: seed, RunSeed: v.RunSeed, Index: v.Index, Cell: v.Cell,
			Mode: "choices", Choices: v.Choices, OrigLen: v.OrigLen, Shrink: v.ShrinkRun, Trace: v.Trace, RandomSchemas: b.RandomSchemas}
		if strings.HasPrefix(v.Kind, "seed:") || strings.HasPrefix(v.Kind, "race-seed:") {
			rfile.Mode = "seed"
			rfile.Seed = v.Seed
			rfile.Race = strings.HasPrefix(v.Kind, "race-seed:")
			rfile.Kind = ""
		}
		if strings.HasPrefix(v.Kind, "race-build:") {
			rfile.Race = true
			rfile.Kind = strings.TrimPrefix(v.Kind, "race-build:")
		}
		data, _ := json.MarshalIndent(rfile, "", " ")
		os.WriteFile(path, data, 0644)
		vioLines = append(vioLines, fmt.Sprintf("VIOLATION property=%s replay=%s", prop, path))
		fmt.Printf("violation: check=%s %s\n", v.Check, v.Msg)
		exit = 1
	}
	for _, k := range known {
		if k.Property == prop && k.Status == "open" && knownHit[k.ID] > 0 {
			fmt.Printf("KNOWN-FINDING: property=%s %s: %s (hit %d times)\n", prop, k.ID, k.What, knownHit[k.ID])
		}
	}

	wall := time.Since(start).Seconds()
	if err := writeEvidence(spec, tier, seed, a, b, wall, len(vioLines), knownHit, nw); err != nil {
		fmt.Fprintln(os.Stderr, "cannot write evidence:", err)
		return 2
	}
	fmt.Printf("runs=%d nontrivial=%d distinct=%d steps=%d interleavings=%d wall=%.1fs build=%v\n", a.runs, a.nontrivial, len(a.keys), a.steps, len(a.sched), wall, b.Wall)
	for _, l := range vioLines {
		fmt.Println(l)
	}
	if exit == 0 {
		fmt.Printf("OK property=%s held on everything explored\n", prop)
	}
	return exit
}

func doReplay(spec Spec, b *Build, bin, tmp string, env []string, rf *ReplayFile, path string) int {
	job := Job{Prop: spec.Prop, Tier: "replay", Mode: "replay", Seed: rf.Seed, Worker: 0, Stride: 1, Kind: rf.Kind, TmpDir: tmp, Replay: rf.Choices, Samples: 1}
	if rf.Mode == "seed" {
		job.Mode = "search"
		job.Replay = nil
		if rf.Cell >= 0 {
			job.OnlyCell = rf.Cell + 1
		} else {
			job.Count = 1
			job.FirstIdx = rf.Index
		}
	}
	if rf.Race {
		env = append(append([]string{}, env...), "GORACE=halt_on_error=1 exitcode=66")
	}
	outs, crashed, err := runWorkers(bin, []Job{job}, b.Dir, env, 10*time.Minute)
	if err != nil {
		fmt.Fprintln(os.Stderr, "HARNESS TROUBLE:", err)
		return 2
	}
	if len(crashed) > 0 {
		fmt.Println("replayed run crashed the worker process:")
		fmt.Println(crashed[0])
		if rf.Check == spec.Prop+"/process-crash" || (rf.Check == spec.Prop+"/data-race" && strings.Contains(crashed[0], "WARNING: DATA RACE")) {
			fmt.Printf("VIOLATION property=%s replay=%s\n", spec.Prop, path)
			return 1
		}
		return 2
	}
	o := outs[0]
	for _, l := range o.ReplayTrace {
		fmt.Println("  " + l)
	}
	for _, f := range o.ReplayFails {
		fmt.Printf("failure: check=%s %s\n", f.Check, f.Msg)
	}
	for _, v := range o.Violations {
		fmt.Printf("failure: check=%s %s\n", v.Check, v.Msg)
	}
	if len(o.ReplayFails) > 0 || len(o.Violations) > 0 {
		got := ""
		if len(o.ReplayFails) > 0 {
			got = o.ReplayFails[0].Check
		} else {
			got = o.Violations[0].Check
		}
		if got != rf.Check {
			fmt.Printf("note: replay failed with check %s, recorded was %s\n", got, rf.Check)
		}
		fmt.Printf("VIOLATION property=%s replay=%s\n", spec.Prop, path)
		return 1
	}
	fmt.Println("replay did not reproduce a violation on this tree")
	return 0
}

// raceInCodeUnderTest reports whether a race report has, at the top of one of
// its access stacks, a frame of thriftrw code that is not the harness.
func raceInCodeUnderTest(log string) bool {
	lines := strings.Split(log, "\n")
	for i, l := range lines {
		t := strings.TrimSpace(l)
		if strings.HasPrefix(t, "Write at ") || strings.HasPrefix(t, "Read at ") || strings.HasPrefix(t, "Previous write at ") || strings.HasPrefix(t, "Previous read at ") ||
			strings.HasPrefix(t, "Atomic") || strings.HasPrefix(t, "Previous atomic") {
			// the first frames below: skip runtime frames, take the first module frame
			for j := i + 1; j < len(lines) && strings.TrimSpace(lines[j]) != ""; j += 2 {
				f := strings.TrimSpace(lines[j])
				if strings.HasPrefix(f, "runtime.") || strings.HasPrefix(f, "sync.") || strings.HasPrefix(f, "internal/") {
					continue
				}
				if strings.HasPrefix(f, "go.uber.org/thriftrw/") && !strings.Contains(f, "/internal/zzsim/") {
					return true
				}
				break
			}
		}
	}
	return false
}

func raceSummary(log string) string {
	var out []string
	lines := strings.Split(log, "\n")
	for i, l := range lines {
		t := strings.TrimSpace(l)
		if strings.Contains(t, " at 0x") && (strings.HasPrefix(t, "Write") || strings.HasPrefix(t, "Read") || strings.HasPrefix(t, "Previous")) {
			for j := i + 1; j < len(lines) && strings.TrimSpace(lines[j]) != ""; j += 2 {
				f := strings.TrimSpace(lines[j])
				if strings.HasPrefix(f, "go.uber.org/thriftrw/") && !strings.Contains(f, "/internal/zzsim/") {
					loc := ""
					if j+1 < len(lines) {
						loc = strings.TrimSpace(lines[j+1])
					}
					out = append(out, strings.Fields(t)[0]+" in "+f+" "+loc)
					break
				}
			}
		}
		if len(out) >= 2 {
			break
		}
	}
	return strings.Join(out, " / ")
}

// runFidelity runs the stub-fidelity cross-check: scenarios executed in the
// simulator and for real must agree on the schedule-independent observables.
func runFidelity(bin string, b *Build, tmp string, env []string, seed uint64, count, nw int) (int64, []string, error) {
	var jobs []Job
	for w := 0; w < nw; w++ {
		jobs = append(jobs, Job{Prop: "FIDELITY", Tier: "quick", Mode: "search", Seed: seed, Worker: w, Stride: nw, Count: count, TmpDir: tmp, MaxViol: 3, ShrinkS: 1, Kind: "fidelity"})
	}
	outs, crashed, err := runWorkers(bin, jobs, b.Dir+"/fidelity", env, 30*time.Minute)
	if err != nil {
		return 0, nil, err
	}
	if len(crashed) > 0 {
		return 0, nil, fmt.Errorf("worker crashed: %s", crashed[0])
	}
	var agreed int64
	var bad []string
	for _, o := range outs {
		agreed += o.Counts["fidelity.agreements"]
		for _, v := range o.Violations {
			bad = append(bad, v.Msg)
		}
	}
	return agreed, bad, nil
}

func firstLine(s string) string {
	for _, l := range strings.Split(s, "\n") {
		if strings.Contains(l, "fatal error") || strings.Contains(l, "panic:") || strings.Contains(l, "runtime:") {
			return strings.TrimSpace(l)
		}
	}
	if i := strings.Index(s, "\n"); i > 0 {
		return s[:i]
	}
	return s
}

func specNames() []string {
	var n []string
	for k := range specs {
		n = append(n, k)
	}
	sort.Strings(n)
	return n
}

func writeEvidence(spec Spec, tier string, seed uint64, a *agg, b *Build, wall float64, nviol int, knownHit map[string]int, nw int) error {
	faults := map[string]int64{}
	probes := map[string]int64{}
	cells := map[string]int64{}
	for k, v := range a.probes {
		switch {
		case strings.HasPrefix(k, "fault."):
			faults[strings.TrimPrefix(k, "fault.")] = v
		case strings.HasPrefix(k, "cell."):
			cells[strings.TrimPrefix(k, "cell.")] = v
		default:
			probes[k] = v
		}
	}
	truncCells := 0
	counts := map[string]int64{}
	for k, v := range a.counts {
		if strings.HasPrefix(k, "trunc.") {
			truncCells++
			continue
		}
		counts[k] = v
	}
	if truncCells > 0 {
		counts["truncation (step, offset, frame length) triples covered"] = int64(truncCells)
	}
	var kh []string
	for id, n := range knownHit {
		kh = append(kh, fmt.Sprintf("%s x%d", id, n))
	}
	sort.Strings(kh)
	rph := 0.0
	if wall > 0 {
		rph = float64(a.runs) / wall * 3600
	}
	cov := map[string]interface{}{
		"evaluations":                    a.runs,
		"distinct_nontrivial":            len(a.keys),
		"rule":                           spec.Rule,
		"samples":                        a.samples,
		"runs_per_hour":                  int64(rph),
		"seeds":                          fmt.Sprintf("VERIF_SEED=%d; run seed i = splitmix(VERIF_SEED, i), i in [0,%d); floor cells seeded splitmix(VERIF_SEED, 0xf100, cell)", seed, a.runs),
		"simulated_steps_total":          a.steps,
		"simulated_time":                 "the code under test reads no clock and has no timers; simulated time is the scheduler step counter (simulated_steps_total)",
		"task_switches_total":            a.switches,
		"distinct_interleavings":         len(a.sched),
		"distinct_interleavings_measure": "FNV hash of the sequence of tasks chosen at scheduling points with >= 2 runnable tasks",
		"distinct_map_orders":            len(a.maps),
		"fault_kinds_fired":              faults,
		"probes":                         probes,
		"counts":                         counts,
		"components_real":                spec.RealComp,
		"components_stubbed":             spec.StubComp,
		"runs_abandoned":                 a.aborted,
		"workers":                        nw,
		"known_findings_hit":             kh,
		"out_of_scope_observations":      a.notes,
		"build_wall_s":                   b.Wall,
		"stopped_early":                  a.stopped,
	}
	if spec.Corpus {
		cov["generated_types_in_registry"] = b.Registry
		cov["seeded_random_schemas_in_corpus"] = b.RandomSchemas
		cov["regenerated_packages_dropped_because_they_do_not_compile"] = b.Dropped
	}
	if len(cells) > 0 {
		cov["protocol_cells"] = cells
	}
	if b.Seam != nil {
		cov["seams"] = map[string]interface{}{
			"sync_imports_swapped": b.Seam.SyncImports, "exec_imports_swapped": b.Seam.ExecImports, "log_imports_swapped": b.Seam.LogImports,
			"go_statements": b.Seam.GoStmts, "map_ranges": b.Seam.MapRanges, "reflect_mapkeys_calls": b.Seam.MapKeysCalls, "yield_sites": b.Seam.YieldSites,
			"knobs": b.Seam.Knobs, "unsimulated_primitives": b.Seam.Unsimulated, "unseamed_map_ranges": b.Seam.UnseamedMapRanges,
			"other_nondeterminism_sources": b.Seam.Nondeterminism,
		}
	}
	ev := map[string]interface{}{
		"property_id": spec.Prop,
		"tier":        tier,
		"seed":        int64(seed),
		"level":       spec.Level,
		"coverage":    cov,
		"assumptions": spec.Assume,
		"wall_s":      wall,
		"violations":  nviol,
	}
	evDir := filepath.Join(verifDir, "evidence")
	if d := os.Getenv("VSIM_EVIDENCE_DIR"); d != "" {
		evDir = d // bin/mutant-test: do not overwrite the evidence of the real tree
	}
	os.MkdirAll(evDir, 0755)
	data, err := json.MarshalIndent(ev, "", " ")
	if err != nil {
		return err
	}
	tmp := filepath.Join(evDir, spec.Prop+".json.tmp")
	if err := os.WriteFile(tmp, data, 0644); err != nil {
		return err
	}
	if tier == "thorough" {
		// keep the deepest exploration on record next to the file of the last run
		os.WriteFile(filepath.Join(evDir, spec.Prop+".thorough.json"), data, 0644)
	}
	return os.Rename(tmp, filepath.Join(evDir, spec.Prop+".json"))
}

// runSelftest is the determinism self-test: for every claimed property a
// sample of seeds is executed in several separate worker processes under
// GOMAXPROCS 1, 4 and 16; every process also repeats each seed in-process and
// replays the recorded choice list. All hashes (events, outcomes, oracle
// verdicts) must agree.
func runSelftest() int {
	seed := verifSeed()
	n := 48
	if s := os.Getenv("VSIM_SELFTEST_SEEDS"); s != "" {
		if v, err := strconv.Atoi(s); err == nil {
			n = v
		}
	}
	props := specNames()
	if p := os.Getenv("VSIM_SELFTEST_PROPS"); p != "" {
		props = strings.Split(p, ",")
	}
	builds := map[string]*Build{}
	defer func() {
		for _, b := range builds {
			b.Cleanup()
		}
	}()
	bad := 0
	for _, prop := range props {
		spec := specs[prop]
		key := spec.Binary + fmt.Sprint(spec.Corpus)
		b := builds[key]
		if b == nil {
			var err error
			b, err = PrepareBuild(buildOpts{Tag: "selftest-" + key, NeedRoot: spec.Binary == "root", NeedTB: spec.Binary == "tb", Corpus: spec.Corpus})
			builds[key] = b
			if err != nil {
				fmt.Fprintln(os.Stderr, "BUILD FAILED:", err)
				return 2
			}
		}
		bin := b.SimTest
		if spec.Binary == "tb" {
			bin = b.TBTest
		}
		tmp := tmpBase(b)
		var jobs []Job
		for i, mp := range []int{1, 4, 16, 2, 1, 16} {
			jobs = append(jobs, Job{Prop: prop, Tier: "quick", Mode: "hash", Seed: seed, Worker: 0, Stride: 1, Count: n, TmpDir: tmp, Repeat: 2, MaxProcs: mp, Kind: fmt.Sprintf("p%d", i)})
		}
		// distinct worker ids so that sandboxes do not collide
		for i := range jobs {
			jobs[i].TmpDir = filepath.Join(tmp, fmt.Sprintf("st%d", i))
			os.MkdirAll(jobs[i].TmpDir, 0755)
		}
		outs, crashed, err := runWorkers(bin, jobs, filepath.Join(b.Dir, "selftest-"+prop), goEnv(), 20*time.Minute)
		os.RemoveAll(tmp)
		if err != nil || len(crashed) > 0 {
			fmt.Fprintln(os.Stderr, "selftest: worker trouble for", prop, err, crashed)
			return 2
		}
		div := 0
		for _, o := range outs {
			for _, d := range o.Diverged {
				fmt.Printf("DIVERGED %s: %s\n", prop, d)
				div++
			}
		}
		for idx, h0 := range outs[0].Hashes {
			for pi, o := range outs[1:] {
				if o.Hashes[idx] != h0 {
					fmt.Printf("DIVERGED %s: seed index %s: process 0 (GOMAXPROCS 1) hash %x, process %d hash %x\n", prop, idx, h0, pi+1, o.Hashes[idx])
					div++
				}
			}
		}
		fmt.Printf("selftest %s: %d seeds x %d processes (GOMAXPROCS 1,4,16,2,1,16) x 2 in-process repeats + replay: %d divergences\n", prop, n, len(jobs), div)
		bad += div
	}
	if bad > 0 {
		fmt.Println("DETERMINISM SELF-TEST FAILED")
		return 2
	}
	fmt.Println("determinism self-test passed")
	return 0
}

// runFidelityCmd is `bin/check fidelity`: the stub-fidelity cross-check alone.
func runFidelityCmd() int {
	b, err := PrepareBuild(buildOpts{Tag: "fidelity", NeedRoot: true})
	defer b.Cleanup()
	if err != nil {
		fmt.Fprintln(os.Stderr, "BUILD FAILED:", err)
		return 2
	}
	tmp := tmpBase(b)
	defer os.RemoveAll(tmp)
	n := 2000
	if s := os.Getenv("VSIM_FIDELITY_N"); s != "" {
		if v, err := strconv.Atoi(s); err == nil {
			n = v
		}
	}
	agreed, bad, ferr := runFidelity(b.SimTest, b, tmp, goEnv(), verifSeed(), n, nWorkers())
	if ferr != nil {
		fmt.Fprintln(os.Stderr, "harness trouble:", ferr)
		return 2
	}
	for _, m := range bad {
		fmt.Println(m)
	}
	fmt.Printf("stub-fidelity cross-check: %d scenarios agree, %d disagree\n", agreed, len(bad))
	if len(bad) > 0 {
		return 2
	}
	return 0
}
