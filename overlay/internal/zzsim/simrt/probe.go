package simrt

// Probes are process-wide hit counters for "this rare condition was reached"
// and for fault kinds that actually fired. They are registered at package
// initialisation and stored in a fixed array (no map: see package comment).

const maxProbes = 512

var (
	probeNames [maxProbes]string
	probeHits  [maxProbes]int64
	nProbes    int
)

type Probe int

// NewProbe registers a probe; call from package-level var initialisers only.
func NewProbe(name string) Probe {
	for i := 0; i < nProbes; i++ {
		if probeNames[i] == name {
			return Probe(i)
		}
	}
	if nProbes >= maxProbes {
		panic("simrt: too many probes")
	}
	probeNames[nProbes] = name
	nProbes++
	return Probe(nProbes - 1)
}

//go:norace
func (p Probe) Hit() { probeHits[p]++ }

//go:norace
func (p Probe) Add(n int64) { probeHits[p] += n }

// ProbeSnapshot returns name -> hits for all probes.
//
//go:norace
func ProbeSnapshot() map[string]int64 {
	m := make(map[string]int64, nProbes)
	for i := 0; i < nProbes; i++ {
		m[probeNames[i]] = probeHits[i]
	}
	return m
}

// Knobs: package variables of the code under test that runs may randomise.
type knob struct {
	name string
	set  func(int64)
	def  int64
}

var knobs []knob

// RegisterKnob is called from generated knob files inside the code under test.
func RegisterKnob(name string, def int64, set func(int64)) {
	knobs = append(knobs, knob{name, set, def})
}

// SetKnob sets a knob for the current run; it is reset when the next run starts.
func SetKnob(name string, v int64) bool {
	for _, k := range knobs {
		if k.name == name {
			k.set(v)
			return true
		}
	}
	return false
}

func resetKnobs() {
	for _, k := range knobs {
		k.set(k.def)
	}
}
