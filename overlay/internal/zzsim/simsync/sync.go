// Package simsync is the `sync` seam. Mutex, WaitGroup and Pool are simulated;
// everything else is the real thing (its use by code under test is reported by
// the seam rewriter as an unsimulated primitive).
package simsync

import (
	"sync"

	"go.uber.org/thriftrw/internal/zzsim/simrt"
)

type (
	Mutex     = simrt.Mutex
	WaitGroup = simrt.WaitGroup
	Pool      = simrt.Pool
	RWMutex   = simrt.RWMutex
	Once      = simrt.Once

	Cond   = sync.Cond
	Map    = sync.Map
	Locker = sync.Locker
)

func NewCond(l Locker) *Cond { return sync.NewCond(l) }
