package zzmain

import (
	"os"
	"syscall"

	"go.uber.org/thriftrw/internal/zzsim/world/orderw"
	"go.uber.org/thriftrw/internal/zzsim/world/pluginw"
)

// HostMain is main.do, set by the root package's TestMain.
var HostMain func() error

// TBRun is cmd/thriftbreak's run, set by that package's TestMain.
var TBRun func(args []string) error

// TBMain is cmd/thriftbreak's main, set by that package's TestMain.
var TBMain func()

// Init wires the injected entry points into the engines.
func Init() {
	pluginw.HostMain = HostMain
	orderw.HostMain = HostMain
	orderw.TBRun = TBRun
	orderw.TBMain = TBMain
}

func init() {
	Engines["C16"] = Engine{Run: pluginw.RunOne, Cells: func(string) int { return pluginw.FloorCells() }}
	Engines["C17"] = Engine{Run: pluginw.RunOne}
	Engines["FIDELITY"] = Engine{Run: pluginw.RunFidelity}
}

// RealPlugin is the plugin side of the stub-fidelity cross-check.
func RealPlugin(jobFile string) int {
	st := pluginw.RealPluginMain(jobFile)
	if st < 0 {
		// the script says "killed by a signal"
		syscall.Kill(os.Getpid(), syscall.SIGKILL)
		select {}
	}
	return st
}
