package zzmain

import (
	"time"

	"go.uber.org/thriftrw/internal/zzsim/world"
)

// Shrink minimises a failing choice list: a candidate is accepted when the
// replayed run fails with the same first check signature. Because choice 0 is
// always the benign default, zeroing removes faults, preemptions, segmentation
// and workload items alike.
//
// Passes: truncate the tail (bisection); delta-debugging over the non-zero
// positions (zero half, quarters, ... single positions); lower the surviving
// values; finally try to delete short blocks (deletion shifts the meaning of
// everything after it, so it rarely helps and comes last).
func Shrink(orig []int32, check string, budget time.Duration, run func([]int32) *world.Result) ([]int32, int) {
	start := time.Now()
	execs := 0
	const maxExecs = 3000
	out := func() bool { return execs >= maxExecs || time.Since(start) > budget }
	fails := func(c []int32) bool {
		if out() {
			return false
		}
		execs++
		r := run(c)
		return len(r.Failures) > 0 && r.Failures[0].Check == check
	}
	cur := append([]int32{}, orig...)
	if !fails(cur) {
		return cur, execs
	}
	trim := func() {
		for len(cur) > 0 && cur[len(cur)-1] == 0 {
			cur = cur[:len(cur)-1]
		}
	}
	// 1. truncate the tail (missing choices replay as 0)
	lo, hi := 0, len(cur)
	for lo < hi {
		mid := (lo + hi) / 2
		if fails(cur[:mid]) {
			hi = mid
		} else {
			lo = mid + 1
		}
	}
	if hi < len(cur) && fails(cur[:hi]) {
		cur = cur[:hi]
	}
	trim()
	for round := 0; round < 3 && !out(); round++ {
		before := nonZero(cur)
		// 2. ddmin over the non-zero positions
		n := 2
		for !out() {
			nz := nonZeroIdx(cur)
			if len(nz) == 0 {
				break
			}
			if n > len(nz) {
				n = len(nz)
			}
			chunk := (len(nz) + n - 1) / n
			progressed := false
			for i := 0; i < len(nz) && !out(); i += chunk {
				j := i + chunk
				if j > len(nz) {
					j = len(nz)
				}
				cand := append([]int32{}, cur...)
				for _, k := range nz[i:j] {
					cand[k] = 0
				}
				if fails(cand) {
					cur = cand
					progressed = true
					break
				}
			}
			if progressed {
				if n > 2 {
					n--
				}
				continue
			}
			if chunk == 1 {
				break
			}
			n *= 2
		}
		trim()
		// 3. lower individual values
		for i := 0; i < len(cur) && !out(); i++ {
			for cur[i] > 1 && !out() {
				cand := append([]int32{}, cur...)
				cand[i] = cur[i] / 2
				if fails(cand) {
					cur = cand
					continue
				}
				cand[i] = cur[i] - 1
				if fails(cand) {
					cur = cand
					continue
				}
				break
			}
		}
		// 4. delete short blocks
		for _, bs := range []int{8, 2, 1} {
			for i := 0; i+bs <= len(cur) && !out(); {
				cand := append(append([]int32{}, cur[:i]...), cur[i+bs:]...)
				if len(cand) < len(cur) && fails(cand) {
					cur = cand
				} else {
					i += bs
				}
			}
		}
		trim()
		if nonZero(cur) >= before {
			break
		}
	}
	return cur, execs
}

func nonZero(c []int32) int {
	n := 0
	for _, v := range c {
		if v != 0 {
			n++
		}
	}
	return n
}

func nonZeroIdx(c []int32) []int {
	var out []int
	for i, v := range c {
		if v != 0 {
			out = append(out, i)
		}
	}
	return out
}
