package wirew

import (
	"bytes"
	"encoding/binary"
	"fmt"
	"runtime/debug"

	"go.uber.org/thriftrw/internal/zzsim/ref"
	"go.uber.org/thriftrw/internal/zzsim/refwire"
	"go.uber.org/thriftrw/internal/zzsim/simio"
	"go.uber.org/thriftrw/internal/zzsim/simrt"
	"go.uber.org/thriftrw/internal/zzsim/world"
	tbin "go.uber.org/thriftrw/protocol/binary"
	"go.uber.org/thriftrw/wire"
)

type outcome struct {
	ok     bool
	val    ref.Val
	used   int64 // bytes consumed
	err    string
	panic  string
	budget bool
}

func (o outcome) String() string {
	if o.panic != "" {
		return "PANIC " + first(o.panic, 200)
	}
	if o.budget {
		return "BUDGET-EXCEEDED"
	}
	if !o.ok {
		return "ERR(" + first(o.err, 80) + ")"
	}
	return fmt.Sprintf("OK(consumed=%d, %s)", o.used, first(o.val.String(), 120))
}

func first(s string, n int) string {
	if len(s) > n {
		return s[:n] + "..."
	}
	return s
}

// guard runs f, turning a panic or an exceeded call budget into an outcome.
func guard(f func() outcome) (o outcome) {
	defer func() {
		if r := recover(); r != nil {
			if _, ok := r.(simio.ErrBudget); ok {
				o = outcome{budget: true}
				return
			}
			o = outcome{panic: fmt.Sprintf("%v\n%s", r, debug.Stack())}
		}
	}()
	return f()
}

func budgetFor(n int) int64 { return 1024*int64(n) + 65536 }

// raDecode: random-access reader + forcing every lazy container.
func raDecode(b []byte, t wire.Type, plan simio.Plan) outcome {
	return guard(func() outcome {
		ra := simio.NewReaderAt(b, plan)
		ra.Budget = budgetFor(len(b))
		r := tbin.NewReader(ra)
		v, off, err := r.ReadValue(t, int64(plan.Start))
		if err != nil {
			return outcome{err: err.Error()}
		}
		rv, err := refwire.Force(v)
		if err != nil {
			return outcome{err: "force: " + err.Error()}
		}
		return outcome{ok: true, val: rv, used: off - int64(plan.Start)}
	})
}

// raEvaluate: random-access reader + wire.EvaluateValue (which closes the containers it walks,
// so the value is not looked at afterwards).
func raEvaluate(b []byte, t wire.Type, plan simio.Plan) outcome {
	return guard(func() outcome {
		ra := simio.NewReaderAt(b, plan)
		ra.Budget = budgetFor(len(b))
		r := tbin.NewReader(ra)
		v, off, err := r.ReadValue(t, int64(plan.Start))
		if err != nil {
			return outcome{err: err.Error()}
		}
		if err := wire.EvaluateValue(v); err != nil {
			return outcome{err: "evaluate: " + err.Error()}
		}
		return outcome{ok: true, used: off - int64(plan.Start)}
	})
}

// stDecode: the harness decoder over the library's stream reader.
func stDecode(b []byte, t wire.Type, plan simio.Plan) outcome {
	return guard(func() outcome {
		r, raw := simio.NewReader(b, plan)
		raw.Budget = budgetFor(len(b))
		sr := tbin.NewStreamReader(r)
		defer sr.Close()
		v, err := streamDecode(sr, t, 0)
		if err != nil {
			return outcome{err: err.Error()}
		}
		return outcome{ok: true, val: v, used: int64(raw.Offset() - plan.Start)}
	})
}

// ownedBuffer: stream decode from a *bytes.Buffer; once the value has been read the owner
// refills the buffer (the next frame arrives) - the decoded value must not change with it.
func ownedBuffer(b []byte, t wire.Type) outcome {
	return guard(func() outcome {
		buf := bytes.NewBuffer(append([]byte{}, b...))
		sr := tbin.NewStreamReader(buf)
		defer sr.Close()
		v, err := streamDecode(sr, t, 0)
		if err != nil {
			return outcome{err: err.Error()}
		}
		used := int64(len(b) - buf.Len())
		buf.Reset()
		junk := make([]byte, len(b))
		for i := range junk {
			junk[i] = 0xa5
		}
		buf.Write(junk)
		return outcome{ok: true, val: v, used: used}
	})
}

// lazyReencode: random-access decode from a *bytes.Reader whose own read cursor has been moved
// (a header was read with Read, the input was checksummed), written out again by the library's
// writer as it is, lazy containers and all. The encoding comes back in val.B.
func lazyReencode(b []byte, t wire.Type, start int) outcome {
	return guard(func() outcome {
		rd := bytes.NewReader(b)
		switch ch("c03.cursor", 3) {
		case 1:
			rd.Seek(int64(len(b)), 0)
		case 2:
			rd.Seek(int64(len(b)/2), 0)
		}
		r := tbin.NewReader(rd)
		v, _, err := r.ReadValue(t, int64(start))
		if err != nil {
			return outcome{err: err.Error()}
		}
		w := simio.NewWriter(-1)
		if err := tbin.Default.Encode(v, w); err != nil {
			return outcome{err: "encode: " + err.Error()}
		}
		// writing a value does not use it up: a second write (a retry, a forward) gives the same
		// bytes and the value can still be walked
		w2 := simio.NewWriter(-1)
		if err := tbin.Default.Encode(v, w2); err != nil {
			return outcome{err: "second encode of the same value: " + err.Error()}
		}
		if !bytes.Equal(w.Buf, w2.Buf) {
			return outcome{err: fmt.Sprintf("second encode of the same value gives %x", clip(w2.Buf, 64))}
		}
		if _, err := refwire.Force(v); err != nil {
			return outcome{err: "walking the value after it was written: " + err.Error()}
		}
		return outcome{ok: true, val: ref.Val{T: ref.TBinary, B: w.Buf}}
	})
}

// stSkip: stream.Reader.Skip.
func stSkip(b []byte, t wire.Type, plan simio.Plan) outcome {
	return guard(func() outcome {
		r, raw := simio.NewReader(b, plan)
		raw.Budget = budgetFor(len(b))
		sr := tbin.NewStreamReader(r)
		defer sr.Close()
		if err := sr.Skip(t); err != nil {
			return outcome{err: err.Error()}
		}
		return outcome{ok: true, used: int64(raw.Offset() - plan.Start)}
	})
}

var invalidTypes = []byte{0, 1, 5, 7, 9, 16, 0x7f, 0x80, 0xff}

// bombCounts: declared counts at which count*width crosses 2^31 or 2^32 for the
// fixed widths 1..16 (and their sums for maps).
var bombCounts = []uint32{0x7fffffff, 0x7ffffffe, 0x40000000, 0x40000001, 0x3fffffff, 0x20000000, 0x20000001, 0x10000000, 0x10000001,
	0x2aaaaaab, 0x1999999a, 0x15555556, 0x0ccccccd, 0x0e38e38f, 0x08000000, 0x08000001, 0x55555556, 0x33333334, 0x80000000, 0xffffffff}

// genInput draws (type, bytes, marks).
func genInput(o genOpts) (byte, []byte, string) {
	t, b, desc, _ := genInput2(o)
	return t, b, desc
}

// genInput2 also returns the input class: "valid", "mutated" or "random".
func genInput2(o genOpts) (byte, []byte, string, string) {
	class := "valid"
	t := genType()
	desc := ""
	kind := simrt.ChoiceBias("in.kind", 6, 0.35)
	var b []byte
	var marks ref.Marks
	if simrt.Flip("in.long-or-large", 0.008) {
		kind = 6 + ch("in.long-or-large-kind", 2)
	}
	switch kind {
	case 6:
		// a long, valid container of fixed-width elements (thousands of real elements)
		fixed := []byte{ref.TBool, ref.TI8, ref.TI16, ref.TI32, ref.TI64, ref.TDouble}
		et := fixed[ch("long.elem", len(fixed))]
		n := []int{2049, 4097, 5000, 8193, 20000}[ch("long.count", 5)]
		v := ref.Val{T: ref.TList, VT: et}
		if ch("long.set", 2) == 1 {
			v.T = ref.TSet
		}
		for i := 0; i < n; i++ {
			x := ref.Val{T: et, I: int64(i*7 + 1)}
			if et == ref.TBool {
				x.I = int64(i % 2)
			} else if et == ref.TI8 {
				x.I = int64(int8(i))
			} else if et == ref.TI16 {
				x.I = int64(int16(i * 3))
			} else if et == ref.TI32 {
				x.I = int64(int32(i * 7))
			}
			v.Items = append(v.Items, x)
		}
		if ch("long.nested", 2) == 1 {
			v = ref.Struct(ref.F(1, v), ref.F(2, ref.I32(5)))
		}
		t = v.T
		b = ref.EncodeMarked(nil, v, &marks)
		desc = fmt.Sprintf("%d fixed-width elements", n)
	case 7:
		// two (or three) large binaries of different content in one struct (each above 1 MiB)
		v := ref.Val{T: ref.TStruct}
		nb := 2 + ch("large.fields", 2)
		for k := 0; k < nb; k++ {
			sz := (1 << 20) + 1 + ch("large.extra", 3)*((1<<20)+17)
			bs := make([]byte, sz)
			for i := range bs {
				bs[i] = byte(i*31 + k*7 + 1)
			}
			v.Fields = append(v.Fields, ref.Field{ID: int16(k + 1), V: ref.Bin(bs)})
		}
		t = ref.TStruct
		b = ref.EncodeMarked(nil, v, &marks)
		desc = fmt.Sprintf("%d large binaries", nb)
	case 5:
		// deep nesting: lists of lists of ... or structs in structs, a few to a few hundred levels
		depth := []int{8, 63, 64, 65, 66, 100, 300}[ch("deep.levels", 7)]
		v := ref.I32(int32(ch("deep.leaf", 100)))
		if ch("deep.shape", 2) == 0 {
			for i := 0; i < depth; i++ {
				v = ref.Val{T: ref.TList, VT: v.T, Items: []ref.Val{v}}
			}
		} else {
			for i := 0; i < depth; i++ {
				v = ref.Struct(ref.F(int16(1+i%3), v))
			}
		}
		t = v.T
		b = ref.EncodeMarked(nil, v, &marks)
		desc = fmt.Sprintf("nested %d levels", depth)
		if simrt.Flip("deep.mutate", 0.2) {
			var name string
			b, name = mutate(b, &marks, 0)
			desc += "+" + name
			class = "mutated"
		}
	case 4:
		// "count bomb": a struct of fixed-width fields followed by a container of
		// fixed-width elements whose declared count sits at an arithmetic boundary
		// (count*width near 2^31 / 2^32): exercises the skip fast paths' length
		// computation; a wrapped product turns into a backwards seek or a bogus skip.
		t = ref.TStruct
		v := ref.Val{T: ref.TStruct}
		nf := ch("bomb.fields", 4)
		fixed := []byte{ref.TBool, ref.TI8, ref.TI16, ref.TI32, ref.TI64, ref.TDouble}
		for i := 0; i < nf; i++ {
			ft := fixed[ch("bomb.field-type", len(fixed))]
			v.Fields = append(v.Fields, ref.Field{ID: int16(i + 1), V: genVal(ft, 3, o)})
		}
		var c ref.Val
		switch ch("bomb.container", 3) {
		case 0:
			c = ref.Val{T: ref.TList, VT: fixed[ch("bomb.elem", len(fixed))]}
		case 1:
			c = ref.Val{T: ref.TSet, VT: fixed[ch("bomb.elem", len(fixed))]}
		default:
			c = ref.Val{T: ref.TMap, KT: fixed[ch("bomb.key", len(fixed))], VT: fixed[ch("bomb.elem", len(fixed))]}
		}
		ne := ch("bomb.items", 3)
		for i := 0; i < ne; i++ {
			if c.T == ref.TMap {
				c.Items = append(c.Items, genVal(c.KT, 3, o))
			}
			c.Items = append(c.Items, genVal(c.VT, 3, o))
		}
		if ch("bomb.nested", 3) == 0 {
			c = ref.Struct(ref.F(1, c))
		}
		v.Fields = append(v.Fields, ref.Field{ID: int16(nf + 1), V: c})
		b = ref.EncodeMarked(nil, v, &marks)
		if len(marks.Lens) > 0 {
			i := marks.Lens[len(marks.Lens)-1]
			binary.BigEndian.PutUint32(b[i:], bombCounts[ch("bomb.count", len(bombCounts))])
		}
		class = "mutated"
		desc = "count bomb"
	case 0, 1, 2:
		vt := t
		if kind == 2 && simrt.Flip("in.other-type", 0.3) {
			vt = genType()
		}
		v := genVal(vt, 0, o)
		b = ref.EncodeMarked(nil, v, &marks)
		desc = "valid " + ref.TypeName(vt)
		if kind >= 1 {
			class = "mutated"
			n := 1 + ch("in.mutations", 3)
			for i := 0; i < n; i++ {
				var name string
				b, name = mutate(b, &marks, 0)
				desc += "+" + name
			}
		}
		if simrt.Flip("in.trailing", 0.2) {
			b = append(b, randomBytes()...)
			desc += "+trailing"
		}
	default:
		b = randomBytes()
		desc = "random bytes"
		class = "random"
	}
	if simrt.Flip("in.invalid-type", 0.03) {
		t = invalidTypes[ch("in.invalid-type-pick", len(invalidTypes))]
	}
	return t, b, desc, class
}

// RunC03 is one C03 run: one input, the baseline, D delivery schedules.
func RunC03(cfg simrt.Config, o world.Opts) *world.Result {
	res := &world.Result{}
	if o.Trace {
		cfg.KeepLabels = true
	}
	s := simrt.New(cfg)
	var lines []string
	logf := func(f string, a ...interface{}) {
		if o.Trace {
			lines = append(lines, fmt.Sprintf(f, a...))
		}
	}
	h := world.NewHasher()
	refwire.NestedWalk = func() bool { return simrt.Flip("c03.nested-walk", 0.1) }
	defer func() { refwire.NestedWalk = nil }()
	s.Inline(func() {
		// pre-history: other inputs decoded first in the same process, so that whatever an
		// earlier (often failing) decode left in the pooled readers and lazy containers is
		// there when the input under test is decoded
		if simrt.Flip("c03.prehistory", 0.3) {
			n := 1 + ch("c03.prehistory-n", 2)
			for i := 0; i < n; i++ {
				pt, pb, pdesc, _ := genInput2(genOpts{maxDepth: 3})
				var po outcome
				if ch("c03.prehistory-kind", 2) == 0 {
					po = raDecode(pb, wire.Type(pt), simio.Plan{TruncAt: -1, ErrAt: -1})
				} else {
					po = stDecode(pb, wire.Type(pt), simio.Plan{TruncAt: -1, ErrAt: -1})
				}
				logf("pre-history %d: decode as %s, %d bytes (%s): %x -> %s", i, ref.TypeName(pt), len(pb), pdesc, clip(pb, 48), po)
				res.Count("c03.prehistory-decodes", 1)
				if !po.ok {
					res.Count("c03.prehistory-failed-decodes", 1)
				}
				if po.panic != "" {
					res.Failf("C03/panic", "decode panicked on %x as %s: %s", clip(pb, 64), ref.TypeName(pt), first(po.panic, 500))
					return
				}
				if po.budget {
					res.Failf("C03/budget", "decode exceeded %d reader calls on %d bytes", budgetFor(len(pb)), len(pb))
					return
				}
			}
		}
		t, b, desc, class := genInput2(genOpts{maxDepth: 3, allowBig: true})
		wt := wire.Type(t)
		// the value may start at a non-zero position of the underlying reader
		start := 0
		if simrt.Flip("in.prefix", 0.3) {
			start = 1 + ch("in.prefix-len", 9)
			pre := make([]byte, start)
			for i := range pre {
				pre[i] = typeBytes[ch("in.prefix-byte", len(typeBytes))]
			}
			b = append(pre, b...)
		}
		logf("input: decode as %s at offset %d, %d bytes (%s): %x", ref.TypeName(t), start, len(b), desc, clip(b, 96))
		full := simio.Plan{TruncAt: -1, ErrAt: -1, Start: start}
		base := raDecode(b, wt, full)
		logf("baseline (random-access, full delivery): %s", base)
		h.Str(base.String())
		if base.panic != "" {
			res.Failf("C03/panic", "random-access decode panicked on %x as %s: %s", clip(b, 64), ref.TypeName(t), first(base.panic, 500))
			return
		}
		if base.budget {
			res.Failf("C03/budget", "random-access decode exceeded %d reader calls on %d bytes", budgetFor(len(b)), len(b))
			return
		}
		res.Nontrivial = true
		// the library's own way of forcing (wire.EvaluateValue) must succeed exactly when a
		// walk over every lazy container succeeds
		if ev := raEvaluate(b, wt, full); ev.panic != "" {
			res.Failf("C03/panic", "wire.EvaluateValue panicked on %x as %s: %s", clip(b, 64), ref.TypeName(t), first(ev.panic, 500))
			return
		} else if !ev.budget && ev.ok != base.ok {
			res.Failf("C03/evaluate-disagrees", "decode of %x as %s: forcing every container by walking it -> %s, wire.EvaluateValue -> %s", clip(b, 64), ref.TypeName(t), base, ev)
			return
		}
		if base.ok {
			res.Count("c03.baseline-ok", 1)
			res.Count("c03.ok."+class, 1)
			// 2. canonical form
			if base.used < 0 || base.used > int64(len(b)-start) {
				res.Failf("C03/consumed-range", "decode reported %d bytes consumed of %d", base.used, len(b)-start)
				return
			}
			prefix := b[start : int64(start)+base.used]
			if enc := ref.Encode(nil, base.val); !bytes.Equal(enc, prefix) {
				res.Failf("C03/canonical", "decode of %x as %s succeeded (consumed %d) but re-encoding gives %x", clip(prefix, 64), ref.TypeName(t), base.used, clip(enc, 64))
			}
			w := simio.NewWriter(-1)
			lib := guard(func() outcome {
				if err := tbin.Default.Encode(refwire.ToWire(base.val), w); err != nil {
					return outcome{err: err.Error()}
				}
				return outcome{ok: true}
			})
			if !lib.ok {
				res.Failf("C03/reencode-failed", "library Encode of the decoded value failed: %s", lib)
			} else if !bytes.Equal(w.Buf, prefix) {
				res.Failf("C03/canonical-lib", "library re-encoding %x differs from consumed prefix %x", clip(w.Buf, 64), clip(prefix, 64))
			}
			// sources the caller owns: a *bytes.Buffer that is refilled once the value has been
			// read from it, a *bytes.Reader whose own cursor stands somewhere else
			if ob := ownedBuffer(b[start:], wt); ob.panic != "" {
				res.Failf("C03/panic", "stream decode from a bytes.Buffer panicked on %x as %s: %s", clip(b, 64), ref.TypeName(t), first(ob.panic, 500))
				return
			} else if !ob.ok || ob.used != base.used || !bytes.Equal(ref.Encode(nil, ob.val), prefix) {
				res.Failf("C03/source-retained", "stream decode of %x as %s from a bytes.Buffer that was refilled afterwards -> %s, baseline %s", clip(prefix, 64), ref.TypeName(t), ob, base)
			}
			if lz := lazyReencode(b, wt, start); lz.panic != "" {
				res.Failf("C03/panic", "re-encoding a lazily decoded value panicked on %x as %s: %s", clip(b, 64), ref.TypeName(t), first(lz.panic, 500))
				return
			} else if !lz.ok {
				res.Failf("C03/canonical-lazy", "decode of %x as %s from a bytes.Reader, written out again by the library without forcing: %s", clip(prefix, 64), ref.TypeName(t), lz)
			} else if !bytes.Equal(lz.val.B, prefix) {
				res.Failf("C03/canonical-lazy", "decode of %x as %s from a bytes.Reader, written out again by the library without forcing, gives %x", clip(prefix, 64), ref.TypeName(t), clip(lz.val.B, 64))
			}
			// reference decoder agreement (observation only)
			if rv, rc, rerr := ref.Decode(b[start:], t); rerr != nil || rc != int(base.used) || !bytes.Equal(ref.Encode(nil, rv), prefix) {
				res.Count("c03.note.reference-decoder-disagrees", 1)
			}
		} else {
			res.Count("c03.baseline-err", 1)
			res.Count("c03.err."+class, 1)
		}
		// delivery schedules
		D := 6
		if o.Tier == "thorough" {
			D = 12
		}
		if len(b) > 1<<20 {
			D = 2 // megabytes, possibly delivered byte by byte: two schedules are enough
		}
		for d := 0; d < D; d++ {
			faulted := d%3 == 2
			plan := simio.GenPlan(len(b), faulted)
			plan.Start = start
			if plan.Seekable && !faulted && simrt.Flip("io.seek-fails", 0.15) {
				plan.SeekFails = true // an *os.File over a pipe: Seek is there and fails
			}
			which := ch("c03.reader-kind", 3)
			var got outcome
			name := ""
			switch which {
			case 0:
				name = "random-access"
				got = raDecode(b, wt, plan)
			case 1:
				name = "stream-decode"
				got = stDecode(b, wt, plan)
			default:
				name = "stream-skip"
				got = stSkip(b, wt, plan)
			}
			logf("schedule %d: %s over %s -> %s", d, name, plan, got)
			h.Str(got.String())
			res.Count("c03.sched."+name, 1)
			if got.panic != "" {
				res.Failf("C03/panic", "%s over %s panicked on %x as %s: %s", name, plan, clip(b, 64), ref.TypeName(t), first(got.panic, 500))
				return
			}
			if got.budget {
				res.Failf("C03/budget", "%s over %s exceeded %d reader calls on %d bytes", name, plan, budgetFor(len(b)), len(b))
				return
			}
			cut := int64(-1)
			if plan.TruncAt >= 0 {
				cut = int64(plan.TruncAt)
			}
			if plan.ErrAt >= 0 {
				cut = int64(plan.ErrAt)
			}
			effective := cut >= 0 && base.ok && cut < int64(start)+base.used // the fault lies inside the value (or before it)
			if cut >= 0 && !base.ok && cut < int64(len(b)) {
				effective = true // cannot tell where the failure point was; only "must not succeed" is checked
			}
			switch which {
			case 0, 1:
				switch {
				case effective && base.ok:
					if got.ok {
						res.Failf("C03/fault-accepted", "%s over %s succeeded although the stream was cut at %d inside the value (%d bytes)", name, plan, cut, base.used)
					}
					res.Count("c03.fault-inside-value", 1)
				case !base.ok:
					if got.ok {
						res.Failf("C03/delivery-dependent", "%s over %s accepted an input the baseline rejects (%s)", name, plan, base)
					}
				default:
					if !got.ok {
						res.Failf("C03/delivery-dependent", "%s over %s failed (%s) on an input the baseline decodes (%s)", name, plan, got, base)
					} else if got.used != base.used {
						res.Failf("C03/consumed-mismatch", "%s over %s consumed %d bytes, baseline %d", name, plan, got.used, base.used)
					} else if !bytes.Equal(ref.Encode(nil, got.val), ref.Encode(nil, base.val)) {
						res.Failf("C03/value-mismatch", "%s over %s decoded %s, baseline %s", name, plan, got, base)
					}
				}
			default: // skip
				if base.ok {
					switch {
					case !effective:
						if !got.ok && plan.SeekFails {
							// the reader's Seek failed: an error is a fair answer, a wrong length is not
						} else if !got.ok {
							res.Failf("C03/skip-failed", "decode succeeds (consumed %d) but skip over %s failed: %s", base.used, plan, got)
						} else if got.used != base.used {
							res.Failf("C03/skip-length", "decode consumed %d bytes but skip over %s consumed %d", base.used, plan, got.used)
						}
						res.Count("c03.skip-agreement-checked", 1)
					case !plan.Seekable:
						if got.ok {
							res.Failf("C03/fault-accepted", "skip over non-seekable %s succeeded although the stream was cut at %d inside the value (%d bytes)", plan, cut, base.used)
						}
					}
				}
			}
		}
	})
	res.FromSim(s)
	for _, c := range res.Choices {
		h.Int(int64(c))
	}
	res.Hash = h.Sum()
	k := world.NewHasher()
	for _, c := range res.Choices {
		k.Int(int64(c))
	}
	res.Key = k.Sum()
	if o.Trace {
		res.Trace = append(lines, world.TraceOf(s, "")...)
		res.Sample = lines
	}
	return res
}

func clip(b []byte, n int) []byte {
	if len(b) > n {
		return b[:n]
	}
	return b
}
