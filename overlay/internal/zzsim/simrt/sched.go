package simrt

import (
	"fmt"
	"runtime"
	"runtime/debug"
)

// S is the run in progress (nil outside a run). Exactly one run is active per
// process at a time.
var S *Sim

// Config of one simulated run.
type Config struct {
	Seed       uint64  // search mode: PRNG seed
	Replay     []int32 // replay mode when non-nil: the recorded choices
	IsReplay   bool
	StepCap    int64 // scheduler steps before the run is abandoned (0 => 200000)
	KeepLabels bool  // record the label of every choice (for human-readable traces)
	KeepEvents bool  // record seam events
	Preempt    bool  // inserted Yield sites are scheduling points
}

type Strategy uint8

const (
	StratRTC    Strategy = iota // run to completion: never switch voluntarily
	StratRandom                 // random walk with switch probability SwitchP
	StratPCT                    // priorities with a few change points
)

// Failure is an invariant violation noticed during or after a run.
type Failure struct {
	Check string // signature, e.g. "C16/goodbye-once"
	Msg   string
}

type Event struct {
	Seq  int64
	Task int32
	Kind string
	Obj  string
	N    int64
	Data string
}

type waitKind uint8

const (
	wNone waitKind = iota
	wMutex
	wPipeRead
	wPipeWrite
	wWG
	wProc
	wNever
	wRWWrite
	wRWRead
)

type Task struct {
	ID      int
	Name    string
	Proc    *Process
	done    bool
	started bool
	wk      waitKind
	wobj    interface{}
	bat     baton
	prio    int64
	Panic   string // non-empty if the task ended in a panic
	onExit  []func()
	exiting bool
}

type Sim struct {
	// choice stream
	replay     bool
	in         []int32
	pos        int
	out        []int32
	labels     []string
	overflow   bool
	rng        Rng
	srng       Rng
	KeepLabels bool
	KeepEvents bool

	// scheduler
	tasks     []*Task
	cur       *Task
	Steps     int64
	StepCap   int64
	Aborted   string
	ctl       baton
	Strat     Strategy
	SwitchP   float64
	pctPoints [4]int64
	pctLow    int64
	Preempt   bool
	PreemptP  float64
	ChunkP0   float64 // search-mode probability that a pipe read is not split
	PipeCap   int     // capacity of pipes created during the run (0 = 64 KiB)
	SchedHash uint64
	Switches  int64
	MultiPick int64 // picks with >= 2 candidates

	// world
	Events   []Event
	seq      int64
	Failures []Failure
	Procs    []*Process
	Execs    []ExecEntry
	Leaked   int // tasks left parked when the run was abandoned
	mapHash  uint64
	mapOrder MapOrder
	endSync  byte // race-detector carrier: every task's exit happens before Run returns
	MapSites int64
	Notes    []string
}

// New prepares a run.
//
//go:norace
func New(cfg Config) *Sim {
	s := &Sim{}
	s.replay = cfg.IsReplay || cfg.Replay != nil
	s.in = cfg.Replay
	s.rng.Seed(cfg.Seed)
	s.srng.Seed(SplitMix(cfg.Seed ^ 0xa5a5a5a55a5a5a5a))
	s.KeepLabels = cfg.KeepLabels
	s.KeepEvents = cfg.KeepEvents
	s.StepCap = cfg.StepCap
	if s.StepCap == 0 {
		s.StepCap = 200000
	}
	s.Preempt = cfg.Preempt
	s.PreemptP = 0.1
	s.ChunkP0 = 0.7
	s.SchedHash = 1469598103934665603
	return s
}

// Choices returns the recorded choice list of the run.
//
//go:norace
func (s *Sim) Choices() []int32 { return s.out }

//go:norace
func (s *Sim) Labels() []string { return s.labels }

//go:norace
func (s *Sim) Overflow() bool { return s.overflow }

//go:norace
func (s *Sim) IsReplay() bool { return s.replay }

// SetStrategy picks the scheduling strategy used in search mode. It must be
// called before Run. expectSteps is a rough guess of the run length used to
// place PCT change points.
//
//go:norace
func (s *Sim) SetStrategy(st Strategy, switchP float64, expectSteps int) {
	s.Strat = st
	s.SwitchP = switchP
	if expectSteps < 8 {
		expectSteps = 8
	}
	for i := range s.pctPoints {
		s.pctPoints[i] = int64(1 + s.srng.Intn(expectSteps))
	}
	s.pctLow = -1
}

// Fail records an invariant violation.
//
//go:norace
func (s *Sim) Fail(check, format string, args ...interface{}) {
	if len(s.Failures) < 64 {
		s.Failures = append(s.Failures, Failure{Check: check, Msg: fmt.Sprintf(format, args...)})
	}
}

// Fail records a violation on the current run, if any.
//
//go:norace
func Fail(check, format string, args ...interface{}) {
	if s := S; s != nil {
		s.Fail(check, format, args...)
	}
}

//go:norace
func (s *Sim) Emit(kind, obj string, n int64, data string) {
	s.seq++
	if !s.KeepEvents || len(s.Events) >= 200000 {
		return
	}
	id := int32(-1)
	if s.cur != nil {
		id = int32(s.cur.ID)
	}
	s.Events = append(s.Events, Event{Seq: s.seq, Task: id, Kind: kind, Obj: obj, N: n, Data: data})
}

// Emit records an event on the current run.
//
//go:norace
func Emit(kind, obj string, n int64, data string) {
	if s := S; s != nil {
		s.Emit(kind, obj, n, data)
	}
}

// Seq returns the global event sequence number (advanced by every Emit).
//
//go:norace
func (s *Sim) Seq() int64 { return s.seq }

// NextSeq advances and returns the global sequence number; used to stamp
// invoke/return events of histories.
//
//go:norace
func NextSeq() int64 {
	s := S
	if s == nil {
		return 0
	}
	s.seq++
	return s.seq
}

//go:norace
func (s *Sim) Note(format string, args ...interface{}) {
	if len(s.Notes) < 32 {
		s.Notes = append(s.Notes, fmt.Sprintf(format, args...))
	}
}

// Cur returns the running task.
//
//go:norace
func Cur() *Task {
	if s := S; s != nil {
		return s.cur
	}
	return nil
}

//go:norace
func (s *Sim) Tasks() []*Task { return s.tasks }

// Run executes main as task 0 and returns when every task has finished or the
// run was abandoned (deadlock, step cap). It installs s as the current run for
// its duration.
//
//go:norace
func (s *Sim) Run(name string, main func()) {
	if S != nil {
		panic("simrt: nested Run")
	}
	S = s
	resetPools()
	resetKnobs()
	s.ctl = newBaton()
	t := s.newTask(name, main)
	s.cur = t
	t.bat.unpark()
	s.ctl.park()
	raceAcquire(&s.endSync)
	// Count what is left behind.
	for _, t := range s.tasks {
		if !t.done {
			s.Leaked++
		}
	}
	if s.Leaked == 0 {
		for _, t := range s.tasks {
			t.bat.free()
		}
		s.ctl.free()
	}
	S = nil
}

//go:norace
func (s *Sim) newTask(name string, fn func()) *Task {
	t := &Task{ID: len(s.tasks), Name: name}
	t.bat = newBaton()
	t.prio = int64(s.srng.Uint64() >> 2)
	s.tasks = append(s.tasks, t)
	go taskMain(s, t, fn)
	return t
}

// taskMain is deliberately NOT norace-sensitive: it only parks, then runs fn.
//
//go:norace
func taskMain(s *Sim, t *Task, fn func()) {
	t.bat.park()
	t.started = true
	normal := false
	defer func() {
		var r interface{}
		if !normal {
			r = recover()
		}
		s.taskExit(t, r, !normal)
	}()
	fn()
	normal = true
}

//go:norace
func (s *Sim) taskExit(t *Task, r interface{}, abnormal bool) {
	if r != nil {
		t.Panic = fmt.Sprintf("%v\n%s", r, debug.Stack())
		s.Emit("task-panic", t.Name, 0, fmt.Sprint(r))
	}
	if s.Aborted != "" && s.cur != t {
		return
	}
	raceReleaseMerge(&s.endSync)
	t.exiting = true
	for i := len(t.onExit) - 1; i >= 0; i-- {
		t.onExit[i]()
	}
	t.done = true
	s.Emit("task-exit", t.Name, 0, "")
	// hand over
	var cands [maxCands]*Task
	n := s.runnableOthers(t, &cands)
	if n == 0 {
		alive := false
		for _, o := range s.tasks {
			if !o.done {
				alive = true
			}
		}
		if alive && s.Aborted == "" {
			s.Aborted = "deadlock"
			s.Emit("deadlock", s.blockedSet(), 0, "")
		}
		s.cur = nil
		s.ctl.unpark()
		return
	}
	idx := 0
	if n > 1 {
		idx = s.pick(cands[:n], false)
	}
	next := cands[idx]
	s.cur = next
	s.Switches++
	next.bat.unpark()
}

const maxCands = 256

//go:norace
func (s *Sim) ready(t *Task) bool {
	if t.done {
		return false
	}
	switch t.wk {
	case wNone:
		return true
	case wMutex:
		return !t.wobj.(*Mutex).held
	case wPipeRead:
		p := t.wobj.(*Pipe)
		return len(p.buf) > 0 || p.wclosed || p.rclosed
	case wPipeWrite:
		p := t.wobj.(*Pipe)
		return len(p.buf) < p.capacity || p.rclosed || p.wclosed
	case wWG:
		return t.wobj.(*WaitGroup).n == 0
	case wProc:
		return t.wobj.(*Process).Exited
	case wRWWrite:
		m := t.wobj.(*RWMutex)
		return !m.writer && m.readers == 0
	case wRWRead:
		return !t.wobj.(*RWMutex).writer
	case wNever:
		return false
	}
	return false
}

//go:norace
func (s *Sim) runnableOthers(me *Task, out *[maxCands]*Task) int {
	n := 0
	for _, t := range s.tasks {
		if t != me && s.ready(t) && n < maxCands {
			out[n] = t
			n++
		}
	}
	return n
}

//go:norace
func (s *Sim) blockedSet() string {
	str := ""
	for _, t := range s.tasks {
		if t.done {
			continue
		}
		str += fmt.Sprintf("%s(wait=%d) ", t.Name, t.wk)
	}
	return str
}

// pick chooses among candidates; cands[0] is the current task when
// includesSelf. Consumes exactly one choice.
//
//go:norace
func (s *Sim) pick(cands []*Task, includesSelf bool) int {
	n := len(cands)
	s.MultiPick++
	var idx int
	if s.replay {
		idx = s.choose("sched", n, -1)
	} else {
		switch s.Strat {
		case StratRTC:
			idx = s.chooseFixed("sched", n, 0)
		case StratPCT:
			for i := range s.pctPoints {
				if s.pctPoints[i] == s.Steps && s.cur != nil {
					s.cur.prio = s.pctLow
					s.pctLow--
				}
			}
			best := 0
			for i := 1; i < n; i++ {
				if cands[i].prio > cands[best].prio {
					best = i
				}
			}
			idx = s.chooseFixed("sched", n, best)
		default:
			if includesSelf {
				idx = s.choose("sched", n, 1-s.SwitchP)
			} else {
				idx = s.choose("sched", n, -1)
			}
		}
	}
	s.SchedHash = (s.SchedHash ^ uint64(cands[idx].ID+1)) * 1099511628211
	return idx
}

// chooseFixed records v without drawing (search mode only).
//
//go:norace
func (s *Sim) chooseFixed(label string, n, v int) int {
	s.pos++
	if len(s.out) < maxChoices {
		s.out = append(s.out, int32(v))
		if s.KeepLabels {
			s.labels = append(s.labels, label)
		}
	} else {
		s.overflow = true
	}
	return v
}

//go:norace
func (s *Sim) step() {
	s.Steps++
	if s.Steps > s.StepCap {
		s.abort("step-cap")
	}
}

// abort abandons the run from the current task: the controller is woken and
// this goroutine parks forever.
//
//go:norace
func (s *Sim) abort(reason string) {
	if s.Aborted == "" {
		s.Aborted = reason
		s.Emit(reason, s.blockedSet(), 0, "")
	}
	me := s.cur
	raceReleaseMerge(&s.endSync)
	s.cur = nil
	s.ctl.unpark()
	if me != nil {
		me.bat.parkForever()
	}
	select {}
}

// yield is a scheduling point at which the current task stays runnable.
//
//go:norace
func (s *Sim) yield() {
	me := s.cur
	if me == nil {
		return
	}
	s.step()
	if len(s.tasks) == 1 {
		return
	}
	var cands [maxCands]*Task
	cands[0] = me
	n := 1
	for _, t := range s.tasks {
		if t != me && s.ready(t) && n < maxCands {
			cands[n] = t
			n++
		}
	}
	if n == 1 {
		return
	}
	idx := s.pick(cands[:n], true)
	if idx == 0 {
		return
	}
	s.switchTo(me, cands[idx])
}

//go:norace
func (s *Sim) switchTo(me, next *Task) {
	s.cur = next
	s.Switches++
	next.bat.unpark()
	me.bat.park()
}

// blockOn parks the current task until the wait condition holds.
//
//go:norace
func (s *Sim) blockOn(k waitKind, obj interface{}) {
	me := s.cur
	if me == nil {
		panic("simrt: blocking outside a task")
	}
	me.wk, me.wobj = k, obj
	for !s.ready(me) {
		s.step()
		var cands [maxCands]*Task
		n := s.runnableOthers(me, &cands)
		if n == 0 {
			s.abort("deadlock")
		}
		idx := 0
		if n > 1 {
			idx = s.pick(cands[:n], false)
		}
		s.switchTo(me, cands[idx])
	}
	me.wk, me.wobj = wNone, nil
}

// Go starts fn as a new task (the seam for `go` statements).
//
//go:norace
func Go(fn func()) {
	s := S
	if s == nil || s.cur == nil {
		go fn()
		return
	}
	name := fmt.Sprintf("%s/g%d", s.cur.Name, len(s.tasks))
	t := s.newTask(name, fn)
	t.Proc = s.cur.Proc
	s.Emit("go", t.Name, 0, "")
	s.yield()
}

// GoNamed starts a named task from harness code.
//
//go:norace
func GoNamed(name string, fn func()) *Task {
	s := S
	if s == nil || s.cur == nil {
		panic("simrt: GoNamed outside a run")
	}
	t := s.newTask(name, fn)
	s.Emit("go", t.Name, 0, "")
	return t
}

// Yield is the seam inserted before statements of the small concurrent
// packages. It is a scheduling point only when the run enabled preemption,
// and then only with probability PreemptP (choice 0 = no preemption).
//
//go:norace
func Yield(site string) {
	s := S
	if s == nil || !s.Preempt || s.cur == nil || len(s.tasks) == 1 {
		return
	}
	if s.choose("preempt", 2, 1-s.PreemptP) == 0 {
		return
	}
	pYieldTaken.Hit()
	s.yield()
}

// YieldNow is an unconditional scheduling point (used by simulated I/O).
//
//go:norace
func YieldNow() {
	if s := S; s != nil && s.cur != nil {
		s.yield()
	}
}

// Exit ends the calling task as a process exit with the given status:
// deferred calls run, the process's pipe ends are closed by its exit hook.
//
//go:norace
func Exit(status int) {
	s := S
	if s == nil || s.cur == nil {
		panic(fmt.Sprintf("simrt: Exit(%d) outside a run", status))
	}
	if p := s.cur.Proc; p != nil && !p.Exited {
		p.Status = status
	}
	runtime.Goexit()
}

// OnExit registers a hook that runs when the current task ends.
//
//go:norace
func (t *Task) OnExit(f func()) { t.onExit = append(t.onExit, f) }

var pYieldTaken = NewProbe("sched.preempt-taken")

// Inline executes fn on the calling goroutine with s as the current run but
// without a scheduler: for single-caller worlds. Seams consult the choice
// stream; scheduling points are no-ops.
//
//go:norace
func (s *Sim) Inline(fn func()) {
	if S != nil {
		panic("simrt: nested run")
	}
	S = s
	resetPools()
	resetKnobs()
	defer func() { S = nil }()
	fn()
}

// Done reports whether the task has finished.
//
//go:norace
func (t *Task) Done() bool { return t.done }
