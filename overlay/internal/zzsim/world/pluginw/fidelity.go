package pluginw

import (
	"encoding/json"
	"fmt"
	"os"
	"os/signal"
	"path/filepath"
	"runtime/debug"
	"sort"
	"strings"
	"syscall"

	"go.uber.org/thriftrw/internal/zzsim/simexec"
	"go.uber.org/thriftrw/internal/zzsim/simrt"
	"go.uber.org/thriftrw/internal/zzsim/world"
	"go.uber.org/thriftrw/plugin"
)

// Stub-fidelity cross-check: one scenario is executed twice - in the simulator
// and for real (real os/exec, real OS pipes, the worker binary re-executing
// itself as thriftrw-plugin-<name> from a temporary $PATH) - and the
// schedule-independent observables must agree: whether the host failed, the
// sequence of complete frames each plugin received, whether every started
// process was reaped, and the output tree. A disagreement is a defect of the
// simulator's stubs, never a violation of a property.

type observed struct {
	HostFailed bool                `json:"host_failed"`
	Recv       map[string][]string `json:"recv"`   // plugin -> names of complete frames received
	Reaped     map[string]bool     `json:"reaped"` // plugin -> waited for
	Started    map[string]bool     `json:"started"`
	Out        map[string]string   `json:"out"`
}

type realPluginJob struct {
	Script Script `json:"script"`
	LogTo  string `json:"log_to"`
}

type realPluginLog struct {
	Recv       []string `json:"recv"`
	ExitReason string   `json:"exit_reason"`
	GenCalls   int      `json:"gen_calls"`
}

// RealPluginMain is the plugin side of the real run (called from TestMain of
// the re-executed worker binary).
func RealPluginMain(jobFile string) int {
	// A write to a pipe the host has closed must come back as EPIPE (the script then ends the
	// process with status 141, as in the simulator) instead of killing the process before it
	// has written down what it saw.
	signal.Ignore(syscall.SIGPIPE)
	data, err := os.ReadFile(jobFile)
	if err != nil {
		fmt.Fprintln(os.Stderr, "real plugin: ", err)
		return 97
	}
	var job realPluginJob
	if err := json.Unmarshal(data, &job); err != nil {
		fmt.Fprintln(os.Stderr, "real plugin: ", err)
		return 97
	}
	log := &PlugLog{Script: &job.Script}
	flush := func() {
		out := realPluginLog{ExitReason: log.ExitReason, GenCalls: log.GenCalls}
		for _, f := range log.Recv {
			out.Recv = append(out.Recv, f.Name)
		}
		b, _ := json.Marshal(out)
		os.WriteFile(job.LogTo, b, 0644)
	}
	status := 0
	if job.Script.Conforming {
		pl := &plugin.Plugin{Name: job.Script.Name, Reader: newSniffReader(os.Stdin, log), Writer: newSniffWriter(os.Stdout, log)}
		if !job.Script.NoSG {
			pl.ServiceGenerator = &scriptedGenerator{ps: &job.Script, log: log}
		}
		// plugin.Main may end the process through log.Fatalf: keep the log current
		defer flush()
		func() {
			defer func() {
				if r := recover(); r != nil {
					status = 2
				}
			}()
			flushingMain(pl, flush)
		}()
		if status == 0 {
			status = job.Script.ExitStatus
		}
	} else {
		status = scriptedRun(&job.Script, log, os.Stdin, os.Stdout)
	}
	flush()
	return status
}

// flushingMain runs plugin.Main and flushes the log whenever a frame arrives,
// because plugin.Main can exit the process from inside.
func flushingMain(pl *plugin.Plugin, flush func()) {
	r := pl.Reader.(*sniffReader)
	orig := r.sn.emit
	r.sn.emit = func(p []byte) { orig(p); flush() }
	plugin.Main(pl)
}

func observeSim(sc *Scenario, logs []*PlugLog, host *hostResult, s *simrt.Sim, out map[string]string) observed {
	o := observed{HostFailed: host.Err != nil, Recv: map[string][]string{}, Reaped: map[string]bool{}, Started: map[string]bool{}, Out: out}
	for _, l := range logs {
		for _, f := range l.Recv {
			o.Recv[l.Script.Name] = append(o.Recv[l.Script.Name], f.Name)
		}
	}
	for _, p := range s.Procs {
		n := strings.TrimPrefix(p.Name, "thriftrw-plugin-")
		o.Started[n] = true
		o.Reaped[n] = p.Reaped
	}
	return o
}

func outTree(snap map[string]string) map[string]string {
	o := map[string]string{}
	for p, h := range snap {
		if strings.HasPrefix(p, "out/") && h != "dir" {
			o[p] = h
		}
	}
	return o
}

// RunFidelity executes one scenario in the simulator and for real and compares.
func RunFidelity(cfg simrt.Config, o world.Opts) *world.Result {
	res := &world.Result{}
	cfg.KeepEvents = true
	s := simrt.New(cfg)
	env, err := makeSandbox(o)
	if err != nil {
		panic(err)
	}
	var sc *Scenario
	var logs []*PlugLog
	var host hostResult
	var args []string
	s.Run("host", func() {
		simrt.Pin("c16.kind", 8, 0)
		sc = genScenario(world.Opts{Prop: "C16", Cell: -1})
		// no faults that end in SIGPIPE-vs-EPIPE differences are excluded: compare what is comparable
		s.SetStrategy(sc.Strat, sc.SwitchP, 400)
		s.Preempt = sc.Preempt
		s.ChunkP0 = sc.ChunkP0
		if err := writeProgram(env, sc.Prog); err != nil {
			panic(err)
		}
		for _, ps := range sc.Plugins {
			ps := ps
			ps.StartFail = 0 // a start failure cannot be staged with a real executable
			log := &PlugLog{Script: ps}
			logs = append(logs, log)
			entry := simrt.ExecEntry{Name: "thriftrw-plugin-" + ps.Name}
			if ps.Conforming {
				entry.Main = conformingMain(ps, log)
			} else {
				entry.Main = scriptedMain(ps, log)
			}
			s.RegisterExec(entry)
		}
		args = []string{"thriftrw", "--out", env.Out, "--pkg-prefix", "example.com/gen"}
		if sc.ExplicitRoot {
			args = append(args, "--thrift-root", filepath.Join(env.Root, filepath.FromSlash(sc.RootRel)))
		}
		if sc.NoRecurse {
			args = append(args, "--no-recurse")
		}
		for _, ps := range sc.Plugins {
			args = append(args, "-p", ps.Name)
		}
		args = append(args, filepath.Join(env.Thrift, filepath.FromSlash(sc.Prog.Files[0].RelPath())))
		os.Args = args
		func() {
			defer func() {
				if r := recover(); r != nil {
					host.Panic = fmt.Sprintf("%v\n%s", r, debug.Stack())
				}
			}()
			host.Err = HostMain()
		}()
	})
	res.FromSim(s)
	if s.Aborted != "" || host.Panic != "" {
		res.Failf("FIDELITY/sim-run-broken", "simulated run: aborted=%q panic=%q", s.Aborted, first(host.Panic, 200))
		return res
	}
	simObs := observeSim(sc, logs, &host, s, outTree(world.Snapshot(env.Root)))

	// ---- the same scenario for real
	os.RemoveAll(env.Out)
	os.MkdirAll(filepath.Join(env.Out, "sub"), 0755)
	os.WriteFile(filepath.Join(env.Out, "keep.txt"), []byte("sentinel\n"), 0644)
	os.WriteFile(filepath.Join(env.Out, "sub", "old.go"), []byte("package old\n"), 0644)
	binDir := filepath.Join(filepath.Dir(env.Root), "realbin")
	os.RemoveAll(binDir)
	os.MkdirAll(binDir, 0755)
	self, _ := os.Executable()
	for _, ps := range sc.Plugins {
		jobFile := filepath.Join(binDir, ps.Name+".job.json")
		logFile := filepath.Join(binDir, ps.Name+".log.json")
		b, _ := json.Marshal(realPluginJob{Script: *ps, LogTo: logFile})
		os.WriteFile(jobFile, b, 0644)
		sh := fmt.Sprintf("#!/bin/sh\nVSIM_WORKER= VSIM_REAL_PLUGIN=%s exec %s -test.run '^$'\n", jobFile, self)
		os.WriteFile(filepath.Join(binDir, "thriftrw-plugin-"+ps.Name), []byte(sh), 0755)
	}
	oldPath := os.Getenv("PATH")
	os.Setenv("PATH", binDir+":"+oldPath)
	simexec.Real = true
	simexec.RealLog = nil
	var realErr error
	realPanic := ""
	os.Args = args
	func() {
		defer func() {
			if r := recover(); r != nil {
				realPanic = fmt.Sprint(r)
			}
		}()
		realErr = HostMain()
	}()
	simexec.Real = false
	os.Setenv("PATH", oldPath)
	realObs := observed{HostFailed: realErr != nil, Recv: map[string][]string{}, Reaped: map[string]bool{}, Started: map[string]bool{}, Out: outTree(world.Snapshot(env.Root))}
	for _, l := range simexec.RealLog {
		f := strings.Fields(l)
		n := strings.TrimPrefix(f[1], "thriftrw-plugin-")
		switch f[0] {
		case "start":
			if f[2] == "err=false" {
				realObs.Started[n] = true
				if _, ok := realObs.Reaped[n]; !ok {
					realObs.Reaped[n] = false
				}
			}
		case "reaped":
			realObs.Reaped[n] = true
		}
	}
	for _, ps := range sc.Plugins {
		data, err := os.ReadFile(filepath.Join(binDir, ps.Name+".log.json"))
		if err != nil {
			continue
		}
		var pl realPluginLog
		json.Unmarshal(data, &pl)
		if len(pl.Recv) > 0 {
			realObs.Recv[ps.Name] = pl.Recv
		}
	}
	os.RemoveAll(binDir)
	if realPanic != "" {
		res.Failf("FIDELITY/real-run-panic", "the real run panicked: %s", realPanic)
		return res
	}
	a, _ := json.Marshal(simObs)
	b, _ := json.Marshal(realObs)
	res.Nontrivial = len(sc.Plugins) > 0
	res.Count("fidelity.scenarios", 1)
	if string(a) != string(b) {
		var names []string
		for _, ps := range sc.Plugins {
			names = append(names, ps.String())
		}
		sort.Strings(names)
		res.Failf("FIDELITY/disagreement", "simulated and real runs disagree for plugins %v:\n  simulated: %s\n  real:      %s\n  sim host error: %v\n  real host error: %v",
			names, a, b, host.Err, realErr)
	} else {
		res.Count("fidelity.agreements", 1)
	}
	k := world.NewHasher()
	for _, c := range res.Choices {
		k.Int(int64(c))
	}
	res.Key = k.Sum()
	res.Hash = res.Key
	if o.Trace {
		res.Trace = append(sc.describe(), string(a), string(b))
	}
	return res
}
