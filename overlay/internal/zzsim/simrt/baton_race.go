//go:build race

package simrt

import (
	"runtime"
	"syscall"
	"unsafe"
)

// baton: in -race builds a private OS pipe driven by raw syscalls from
// //go:norace functions, so that the race detector sees no happens-before edge
// between the task that hands the baton over and the task that receives it.
// (syscall.Read/Write would announce an edge through syscall.ioSync; the raw
// Syscall entry points do not.)
type baton struct{ r, w int }

//go:norace
func newBaton() baton {
	var fds [2]int
	if err := syscall.Pipe2(fds[:], syscall.O_CLOEXEC); err != nil {
		panic("simrt: pipe2: " + err.Error())
	}
	return baton{r: fds[0], w: fds[1]}
}

//go:norace
func (b baton) park() {
	var buf [1]byte
	for {
		n, _, e := syscall.Syscall(syscall.SYS_READ, uintptr(b.r), uintptr(unsafe.Pointer(&buf[0])), 1)
		if e == syscall.EINTR {
			continue
		}
		if e != 0 || n != 1 {
			panic("simrt: baton read failed")
		}
		return
	}
}

//go:norace
func (b baton) unpark() {
	buf := [1]byte{1}
	for {
		n, _, e := syscall.Syscall(syscall.SYS_WRITE, uintptr(b.w), uintptr(unsafe.Pointer(&buf[0])), 1)
		if e == syscall.EINTR {
			continue
		}
		if e != 0 || n != 1 {
			panic("simrt: baton write failed")
		}
		return
	}
}

//go:norace
func (b baton) parkForever() {
	// Close our ends so the descriptors are not leaked, then sleep for good.
	syscall.Close(b.r)
	syscall.Close(b.w)
	select {}
}

//go:norace
func (b baton) free() {
	syscall.Close(b.r)
	syscall.Close(b.w)
}

const RaceEnabled = true

func raceAcquire(p *byte)      { runtime.RaceAcquire(unsafe.Pointer(p)) }
func raceReleaseMerge(p *byte) { runtime.RaceReleaseMerge(unsafe.Pointer(p)) }
