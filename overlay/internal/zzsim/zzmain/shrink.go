package zzmain

import (
	"time"

	"go.uber.org/thriftrw/internal/zzsim/world"
)

// Shrink minimises a failing choice list: a candidate is accepted when the
// replayed run fails with the same first check signature. Because choice 0 is
// always the benign default, zeroing removes faults, preemptions, segmentation
// and workload items alike.
func Shrink(orig []int32, check string, budget time.Duration, run func([]int32) *world.Result) ([]int32, int) {
	start := time.Now()
	execs := 0
	fails := func(c []int32) bool {
		if execs >= 2000 || time.Since(start) > budget {
			return false
		}
		execs++
		r := run(c)
		return len(r.Failures) > 0 && r.Failures[0].Check == check
	}
	cur := append([]int32{}, orig...)
	// 0. does the original replay at all?
	if !fails(cur) {
		return cur, execs
	}
	// 1. truncate the tail (missing choices replay as 0)
	lo, hi := 0, len(cur)
	for lo < hi {
		mid := (lo + hi) / 2
		if fails(cur[:mid]) {
			hi = mid
		} else {
			lo = mid + 1
		}
	}
	if hi < len(cur) && fails(cur[:hi]) {
		cur = cur[:hi]
	}
	trim := func() {
		for len(cur) > 0 && cur[len(cur)-1] == 0 {
			cur = cur[:len(cur)-1]
		}
	}
	trim()
	improved := true
	for pass := 0; improved && pass < 6; pass++ {
		improved = false
		// 2. zero blocks
		for _, bs := range []int{32, 8, 2, 1} {
			for i := 0; i < len(cur); i += bs {
				j := i + bs
				if j > len(cur) {
					j = len(cur)
				}
				allZero := true
				for k := i; k < j; k++ {
					if cur[k] != 0 {
						allZero = false
					}
				}
				if allZero {
					continue
				}
				cand := append([]int32{}, cur...)
				for k := i; k < j; k++ {
					cand[k] = 0
				}
				if fails(cand) {
					cur = cand
					improved = true
				}
			}
		}
		trim()
		// 3. delete blocks
		for _, bs := range []int{16, 4, 1} {
			for i := 0; i+bs <= len(cur); {
				cand := append(append([]int32{}, cur[:i]...), cur[i+bs:]...)
				if fails(cand) {
					cur = cand
					improved = true
				} else {
					i += bs
				}
				if execs >= 2000 {
					break
				}
			}
		}
		trim()
		// 4. lower individual values
		for i := 0; i < len(cur); i++ {
			for cur[i] > 1 {
				cand := append([]int32{}, cur...)
				cand[i] = cur[i] / 2
				if fails(cand) {
					cur = cand
					improved = true
				} else {
					cand[i] = cur[i] - 1
					if fails(cand) {
						cur = cand
						improved = true
					} else {
						break
					}
				}
			}
		}
		if execs >= 2000 || time.Since(start) > budget {
			break
		}
	}
	return cur, execs
}
