#!/usr/bin/env python3
# tools/uncovered.py <cov2.txt> <file-suffix> [src-root]: list uncovered blocks of a file with source lines
import sys,re
prof,suffix=sys.argv[1],sys.argv[2]
root=sys.argv[3] if len(sys.argv)>3 else None  # path of the source file itself
blocks={}
for l in open(prof):
    m=re.match(r'(.*):(\d+)\.(\d+),(\d+)\.(\d+) (\d+) (\d+)',l)
    if not m or not m.group(1).endswith(suffix): continue
    k=(int(m.group(2)),int(m.group(4)))
    blocks[k]=max(blocks.get(k,0),int(m.group(7)))
src=None
if root:
    try: src=open(root).read().split('\n')
    except Exception: pass
for (a,b),c in sorted(blocks.items()):
    if c==0:
        if src: print(f"{a}-{b}: "+' / '.join(x.strip() for x in src[a-1:min(b,a+3)])[:160])
        else: print(a,b)
