package progen

// Canary is a fixed program (no choices are drawn for it) built from the constructs whose
// translation has been seen to depend on state kept between generations: an upper-case word
// in several roles, a field called "error" next to an exception elsewhere, a type with a
// go.name annotation used from another file, an enum or typedef mentioned as required and as
// optional. A generator that keeps nothing from one run to the next turns it into the same
// files however many other programs were generated before.
func Canary() *Program {
	p := &Program{}
	for i, base := range []string{"root", "first", "second"} {
		p.Files = append(p.Files, &File{Index: i, Dir: []string{"", "a", "b"}[i], Base: base})
	}
	root, plain, ops := p.Files[0], p.Files[1], p.Files[2]
	root.Includes = []int{1, 2}
	i32 := &TypeRef{Base: "i32"}
	str := &TypeRef{Base: "string"}
	// first.thrift (generated before second.thrift under the sorted walk): no exception here
	rec := p.add(plain, &Def{Kind: KStruct, Name: "Record", Annot: `(go.name = "Entry")`, Fields: []*FieldDef{
		{ID: 1, Name: "error", Req: ReqOptional, Type: str},
		{ID: 2, Name: "FETCH", Req: ReqOptional, Type: i32},
	}})
	p.add(plain, &Def{Kind: KService, Name: "Cache", Funcs: []*Func{
		{Name: "FETCH", Args: []*FieldDef{{ID: 1, Name: "OK", Req: ReqOptional, Type: i32}, {ID: 2, Name: "error", Req: ReqOptional, Type: str}}},
	}})
	// second.thrift: the exception, and the same words as enum items and constants
	op := p.add(ops, &Def{Kind: KEnum, Name: "Op", Items: []EnumItem{{Name: "FETCH", Value: 0}, {Name: "OK", Value: 1}}})
	p.add(ops, &Def{Kind: KConst, Name: "STORE", Type: i32, Value: &ConstVal{Kind: CInt, Int: 7}})
	p.add(ops, &Def{Kind: KException, Name: "Boom", Fields: []*FieldDef{{ID: 1, Name: "why", Req: ReqOptional, Type: str}}})
	id := p.add(ops, &Def{Kind: KTypedef, Name: "ID", Type: i32})
	// root.thrift: users of both
	recT := &TypeRef{Ref: &Ref{rec.File, rec.Name}}
	opT := &TypeRef{Ref: &Ref{op.File, op.Name}}
	idT := &TypeRef{Ref: &Ref{id.File, id.Name}}
	p.add(root, &Def{Kind: KStruct, Name: "Both", Fields: []*FieldDef{
		{ID: 1, Name: "record", Req: ReqOptional, Type: recT},
		{ID: 2, Name: "op", Req: ReqOptional, Type: opT},
		{ID: 3, Name: "STORE", Req: ReqOptional, Type: idT},
	}})
	p.add(root, &Def{Kind: KService, Name: "Store", Funcs: []*Func{
		{Name: "put", Ret: recT, Args: []*FieldDef{{ID: 1, Name: "item", Req: ReqOptional, Type: recT}, {ID: 2, Name: "op", Req: ReqOptional, Type: opT}}},
		{Name: "latest", Ret: idT, Args: []*FieldDef{{ID: 1, Name: "after", Req: ReqOptional, Type: idT}}},
		{Name: "kind", Ret: opT},
	}})
	return p
}
