package simrt

import (
	"fmt"
	"io"
	"os"
)

// ExecEntry is a simulated executable.
type ExecEntry struct {
	Name     string // file name looked up on the simulated PATH
	Main     func(p *Process) int
	StartErr error // if set, starting it fails with this error
}

// Process is a simulated OS process: one task, its ends of the stdio pipes,
// an exit status. Exiting closes its pipe ends, as the kernel would.
type Process struct {
	Pid    int
	Name   string
	Path   string
	Args   []string
	Stdin  *PipeReader // nil => /dev/null
	Stdout *PipeWriter // nil => /dev/null
	Exited bool
	Status int
	Reaped bool
	Task   *Task
	// Helper: the process leaves a descendant behind (a daemon it started) that inherited its
	// standard error and never exits.
	Helper bool
	User   interface{} // world-specific per-process log
	// StdinView / StdoutView, when set, are what the process sees as os.Stdin / os.Stdout
	// (the world's recorders around Stdin / Stdout).
	StdinView  io.Reader
	StdoutView io.Writer
	carrier    byte // race-detector carrier: process exit happens before a successful wait
}

// SetStatus / ExitStatus keep the exit status out of the race detector's sight
// (it is written by the process task and read by the waiting task; the real
// ordering - exit before wait returns - is announced through the carrier).
//
//go:norace
func (p *Process) SetStatus(st int) {
	if !p.Exited {
		p.Status = st
	}
}

//go:norace
func (p *Process) ExitStatus() int { return p.Status }

// RegisterExec installs an executable for the run.
//
//go:norace
func (s *Sim) RegisterExec(e ExecEntry) { s.Execs = append(s.Execs, e) }

//go:norace
func (s *Sim) LookupExec(name string) *ExecEntry {
	for i := range s.Execs {
		if s.Execs[i].Name == name {
			return &s.Execs[i]
		}
	}
	return nil
}

// StartProcess starts e as a new process task.
//
//go:norace
func (s *Sim) StartProcess(e *ExecEntry, path string, args []string, stdin *PipeReader, stdout *PipeWriter) *Process {
	p := &Process{Pid: 100 + len(s.Procs), Name: e.Name, Path: path, Args: args, Stdin: stdin, Stdout: stdout}
	s.Procs = append(s.Procs, p)
	main := e.Main
	t := s.newTask("proc:"+e.Name, func() {
		p.SetStatus(main(p))
	})
	t.Proc = p
	p.Task = t
	t.OnExit(func() { s.processExited(p, t) })
	s.Emit("proc-start", p.Name, int64(p.Pid), "")
	return p
}

//go:norace
func (s *Sim) processExited(p *Process, t *Task) {
	if t.Panic != "" {
		p.Status = 2
	}
	raceReleaseMerge(&p.carrier)
	p.Exited = true
	if p.Stdin != nil {
		p.Stdin.CloseQuiet()
	}
	if p.Stdout != nil {
		p.Stdout.CloseQuiet()
	}
	s.Emit("proc-exit", p.Name, int64(p.Status), "")
}

// WaitProcess blocks until p has exited and marks it reaped.
//
//go:norace
func (s *Sim) WaitProcess(p *Process) {
	s.yield()
	if !p.Exited {
		pProcWaitBlocked.Hit()
		s.blockOn(wProc, p)
	}
	raceAcquire(&p.carrier)
	p.Reaped = true
	s.Emit("proc-reaped", p.Name, int64(p.Status), "")
}

// WaitForever parks the calling task for good (what waiting for something that never
// happens looks like); the run ends in the scheduler's deadlock detection.
func (s *Sim) WaitForever(p *Process) {
	s.Emit("wait-forever", p.Name, 0, "output copier waits for a descendant that holds the pipe")
	never := &Process{Name: p.Name + ".helper"}
	s.blockOn(wProc, never)
}

func (p *Process) String() string { return fmt.Sprintf("%s[%d]", p.Name, p.Pid) }

var pProcWaitBlocked = NewProbe("proc.wait-blocked")

// ExitStatus is what ProcExit panics with in a run without tasks (Inline) while a world has
// set CatchExit around its call of a tool's main().
type ExitStatus struct{ Status int }

// CatchExit is set by a world around its call of a main() under Inline.
var CatchExit bool

// ProcExit is what os.Exit stands for in seamed code.
//
//go:norace
func ProcExit(status int) {
	if t := Cur(); t != nil && t.Proc != nil {
		Exit(status)
	}
	if Active() && CatchExit {
		panic(ExitStatus{Status: status})
	}
	os.Exit(status)
}

// ProcStdin is what os.Stdin stands for in seamed code: the standard input of the simulated
// process the calling task belongs to (the real one outside a simulated process).
//
//go:norace
func ProcStdin() io.Reader {
	t := Cur()
	if t == nil || t.Proc == nil {
		return os.Stdin
	}
	pProcStdio.Hit()
	switch p := t.Proc; {
	case p.StdinView != nil:
		return p.StdinView
	case p.Stdin != nil:
		return p.Stdin
	}
	return devNull{}
}

// ProcStdout is the counterpart of ProcStdin for os.Stdout.
//
//go:norace
func ProcStdout() io.Writer {
	t := Cur()
	if t == nil || t.Proc == nil {
		return os.Stdout
	}
	pProcStdio.Hit()
	switch p := t.Proc; {
	case p.StdoutView != nil:
		return p.StdoutView
	case p.Stdout != nil:
		return p.Stdout
	}
	return devNull{}
}

type devNull struct{}

func (devNull) Read([]byte) (int, error)    { return 0, io.EOF }
func (devNull) Write(b []byte) (int, error) { return len(b), nil }

var pProcStdio = NewProbe("proc.stdio-default-channel")
