// Package wirew is the wire-world engine (C03, C04, C12, codec part of C18):
// library entry points called by simulated caller tasks; the bytes come from
// and go to simio objects whose behaviour is the delivery and fault schedule.
package wirew

import (
	"encoding/binary"

	"go.uber.org/thriftrw/internal/zzsim/ref"
	"go.uber.org/thriftrw/internal/zzsim/simrt"
)

func ch(label string, n int) int { return simrt.Choice(label, n) }

var i64Table = []int64{0, 1, -1, 2, 127, -128, 128, 255, 256, 32767, -32768, 65535, 1 << 31, (1 << 31) - 1, -(1 << 31), 1 << 40, 1<<63 - 1, -1 << 63}

var dblBits = []uint64{0, 0x8000000000000000, 0x3ff0000000000000, 0x7ff8000000000001, 0x7ff0000000000000, 0xfff0000000000000, 1, 0x7fefffffffffffff, 0x400921fb54442d18}

func rnd(label string) uint64 {
	return simrt.SplitMix(uint64(ch(label, 1<<16)) + 0x1234)
}

func genInt(bits uint) int64 {
	var v int64
	if k := ch("val.int", len(i64Table)+1); k < len(i64Table) {
		v = i64Table[k]
	} else {
		v = int64(rnd("val.int-rnd"))
	}
	switch bits {
	case 8:
		return int64(int8(v))
	case 16:
		return int64(int16(v))
	case 32:
		return int64(int32(v))
	}
	return v
}

var binLens = []int{0, 1, 2, 3, 7, 8, 9, 31, 255, 256, 1000}

func genBytes(allowBig bool) []byte {
	n := binLens[simrt.ChoiceBias("val.bin-len", len(binLens), 0.2)]
	if allowBig && simrt.Flip("val.bin-big", 0.004) {
		n = 1<<20 + 1 + ch("val.bin-big-extra", 64)
		pBigBinary.Hit()
	}
	b := make([]byte, n)
	if n == 0 {
		return b
	}
	mode := ch("val.bin-mode", 3)
	seed := rnd("val.bin-seed")
	for i := range b {
		switch mode {
		case 0:
			b[i] = byte('a' + i%26)
		case 1:
			seed = simrt.SplitMix(seed)
			b[i] = byte(seed)
		default:
			b[i] = 0xff - byte(i)
		}
	}
	return b
}

var fieldIDs = []int16{1, 2, 3, 4, 5, 0, -1, 32767, -32768, 100}

type genOpts struct {
	maxDepth int
	allowBig bool
	maxItems int
}

func genType() byte { return ref.AllTypes[ch("val.type", len(ref.AllTypes))] }

// genVal draws a value of wire type t.
func genVal(t byte, depth int, o genOpts) ref.Val {
	if o.maxItems == 0 {
		o.maxItems = 4
	}
	leafOnly := depth >= o.maxDepth
	switch t {
	case ref.TBool:
		return ref.Val{T: t, I: int64(ch("val.bool", 2))}
	case ref.TI8:
		return ref.Val{T: t, I: genInt(8)}
	case ref.TI16:
		return ref.Val{T: t, I: genInt(16)}
	case ref.TI32:
		return ref.Val{T: t, I: genInt(32)}
	case ref.TI64:
		return ref.Val{T: t, I: genInt(64)}
	case ref.TDouble:
		if k := ch("val.dbl", len(dblBits)+1); k < len(dblBits) {
			return ref.Val{T: t, I: int64(dblBits[k])}
		}
		return ref.Val{T: t, I: int64(rnd("val.dbl-rnd"))}
	case ref.TBinary:
		return ref.Val{T: t, B: genBytes(o.allowBig)}
	case ref.TStruct:
		v := ref.Val{T: t}
		n := ch("val.fields", o.maxItems+1)
		if leafOnly && n > 2 {
			n = 2
		}
		for i := 0; i < n; i++ {
			ft := genType()
			if leafOnly {
				ft = leafType()
			}
			var id int16
			if k := ch("val.field-id", len(fieldIDs)+1); k < len(fieldIDs) {
				id = fieldIDs[k]
			} else {
				id = int16(rnd("val.field-id-rnd"))
			}
			v.Fields = append(v.Fields, ref.Field{ID: id, V: genVal(ft, depth+1, o)})
		}
		return v
	case ref.TList, ref.TSet:
		et := genType()
		if leafOnly {
			et = leafType()
		}
		v := ref.Val{T: t, VT: et}
		n := ch("val.items", o.maxItems+1)
		for i := 0; i < n; i++ {
			v.Items = append(v.Items, genVal(et, depth+1, o))
		}
		return v
	case ref.TMap:
		kt, vt := genType(), genType()
		if leafOnly {
			kt, vt = leafType(), leafType()
		}
		v := ref.Val{T: t, KT: kt, VT: vt}
		n := ch("val.items", o.maxItems+1)
		for i := 0; i < n; i++ {
			v.Items = append(v.Items, genVal(kt, depth+1, o), genVal(vt, depth+1, o))
		}
		return v
	}
	return ref.Val{T: ref.TBool}
}

var leafTypes = []byte{ref.TBool, ref.TI8, ref.TDouble, ref.TI16, ref.TI32, ref.TI64, ref.TBinary}

func leafType() byte { return leafTypes[ch("val.leaf-type", len(leafTypes))] }

var lenEdits = []uint32{0xffffffff, 0, 1, 2, 0x7fffffff, 0x80000000, 0x00100001, 0x00000100, 0x01000000, 0xfffffff9, 0xfffffffc, 0xfffffffb, 0xfffffff7, 0xfffffff8, 0xfffffffa}
var typeBytes = []byte{0, 1, 2, 3, 4, 5, 6, 8, 10, 11, 12, 13, 14, 15, 16, 0x7f, 0x80, 0xff}

var mutNames = []string{"bit-flip", "byte-set", "type-swap", "len-edit", "id-edit", "truncate", "insert", "delete", "duplicate", "append"}

// mutate applies one format-aware mutation. maxLen caps length edits on
// consumers that pre-size from a declared count (0 = no cap).
func mutate(b []byte, m *ref.Marks, maxLen uint32) ([]byte, string) {
	if len(b) == 0 {
		return append(b, byte(ch("mut.byte", 256))), "append"
	}
	op := ch("mut.op", len(mutNames))
	out := append([]byte{}, b...)
	pMut[op].Hit()
	switch mutNames[op] {
	case "bit-flip":
		i := ch("mut.pos", len(out))
		out[i] ^= 1 << uint(ch("mut.bit", 8))
	case "byte-set":
		i := ch("mut.pos", len(out))
		out[i] = typeBytes[ch("mut.byte-val", len(typeBytes))]
	case "type-swap":
		if m != nil && len(m.Types) > 0 {
			i := m.Types[ch("mut.type-pos", len(m.Types))]
			if i < len(out) {
				out[i] = typeBytes[ch("mut.byte-val", len(typeBytes))]
			}
		}
	case "len-edit":
		if m != nil && len(m.Lens) > 0 {
			i := m.Lens[ch("mut.len-pos", len(m.Lens))]
			if i+4 <= len(out) {
				var v uint32
				if k := ch("mut.len-val", len(lenEdits)+2); k < len(lenEdits) {
					v = lenEdits[k]
				} else if k == len(lenEdits) {
					v = binary.BigEndian.Uint32(out[i:]) + 1
				} else {
					v = binary.BigEndian.Uint32(out[i:]) - 1
				}
				if maxLen > 0 && v > maxLen && v < 0x80000000 {
					v = maxLen
				}
				binary.BigEndian.PutUint32(out[i:], v)
			}
		}
	case "id-edit":
		if m != nil && len(m.IDs) > 0 {
			i := m.IDs[ch("mut.id-pos", len(m.IDs))]
			if i+2 <= len(out) {
				binary.BigEndian.PutUint16(out[i:], uint16(fieldIDs[ch("mut.id-val", len(fieldIDs))]))
			}
		}
	case "truncate":
		out = out[:ch("mut.trunc", len(out))]
	case "insert":
		i := ch("mut.pos", len(out)+1)
		n := 1 + ch("mut.ins-n", 4)
		ins := make([]byte, n)
		for k := range ins {
			ins[k] = typeBytes[ch("mut.byte-val", len(typeBytes))]
		}
		out = append(out[:i], append(ins, out[i:]...)...)
	case "delete":
		i := ch("mut.pos", len(out))
		n := 1 + ch("mut.del-n", 4)
		if i+n > len(out) {
			n = len(out) - i
		}
		out = append(out[:i], out[i+n:]...)
	case "duplicate":
		i := ch("mut.pos", len(out))
		n := 1 + ch("mut.dup-n", 8)
		if i+n > len(out) {
			n = len(out) - i
		}
		seg := append([]byte{}, out[i:i+n]...)
		out = append(out[:i+n], append(seg, out[i+n:]...)...)
	case "append":
		out = append(out, typeBytes[ch("mut.byte-val", len(typeBytes))])
	}
	return out, mutNames[op]
}

// randomBytes draws an arbitrary short byte string.
func randomBytes() []byte {
	n := ch("rand.len", 24)
	b := make([]byte, n)
	for i := range b {
		if simrt.Flip("rand.structured", 0.5) {
			b[i] = typeBytes[ch("rand.tb", len(typeBytes))]
		} else {
			b[i] = byte(ch("rand.byte", 256))
		}
	}
	return b
}

var (
	pBigBinary = simrt.NewProbe("wire.binary-over-1MiB")
	pMut       [10]simrt.Probe
)

func init() {
	for i, n := range mutNames {
		pMut[i] = simrt.NewProbe("mutation." + n)
	}
}
