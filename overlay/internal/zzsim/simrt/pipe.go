package simrt

import (
	"errors"
	"io"
	"os"
	"syscall"
)

// Pipe is a simulated OS pipe: bounded buffer, blocking reads and writes,
// EOF after the write end closed, EPIPE after the read end closed. It never
// loses, duplicates or reorders bytes. How many of the available bytes a Read
// returns is a choice of the run (0 = as many as fit).
type Pipe struct {
	Name     string
	buf      []byte
	capacity int
	wclosed  bool
	rclosed  bool
	carrier  byte
	// accounting
	Written int64
	ReadN   int64
}

const PipeCapacity = 64 * 1024

//go:norace
func NewPipe(name string) *Pipe {
	c := PipeCapacity
	if s := S; s != nil && s.PipeCap > 0 {
		c = s.PipeCap
	}
	return &Pipe{Name: name, capacity: c}
}

// ErrClosedPipe is returned when using one's own closed end.
var ErrClosedPipe = os.ErrClosed

//go:norace
func (p *Pipe) read(b []byte) (int, error) {
	s := S
	if s == nil || s.cur == nil {
		panic("simrt: pipe used outside a run")
	}
	if len(b) == 0 {
		return 0, nil
	}
	s.yield()
	if p.rclosed {
		return 0, ErrClosedPipe
	}
	if len(p.buf) == 0 && !p.wclosed {
		pPipeReadBlocked.Hit()
		s.blockOn(wPipeRead, p)
		if p.rclosed {
			return 0, ErrClosedPipe
		}
	}
	if len(p.buf) == 0 {
		return 0, io.EOF
	}
	avail := len(p.buf)
	if avail > len(b) {
		avail = len(b)
	}
	n := avail
	if avail > 1 {
		k := s.choose("pipe.chunk", avail, s.chunkP0())
		if k > 0 {
			n = k
			pPipeShortRead.Hit()
		}
	}
	raceAcquire(&p.carrier)
	// byte loop, not copy(): in -race builds copy() is always checked by the
	// runtime, even inside //go:norace functions
	for i := 0; i < n; i++ {
		b[i] = p.buf[i]
	}
	p.buf = p.buf[n:]
	p.ReadN += int64(n)
	return n, nil
}

// chunkP0 is the search-mode probability of an unsplit read; set per run.
//
//go:norace
func (s *Sim) chunkP0() float64 { return s.ChunkP0 }

//go:norace
func (p *Pipe) write(b []byte) (int, error) {
	s := S
	if s == nil || s.cur == nil {
		panic("simrt: pipe used outside a run")
	}
	total := 0
	for {
		s.yield()
		if p.wclosed {
			return total, ErrClosedPipe
		}
		if p.rclosed {
			pPipeEPIPE.Hit()
			return total, &os.PathError{Op: "write", Path: "|" + p.Name, Err: syscall.EPIPE}
		}
		if len(b) == 0 {
			return total, nil
		}
		free := p.capacity - len(p.buf)
		if free == 0 {
			pPipeWriteBlocked.Hit()
			s.blockOn(wPipeWrite, p)
			continue
		}
		n := len(b)
		if n > free {
			n = free
		}
		for i := 0; i < n; i++ {
			p.buf = append(p.buf, b[i])
		}
		raceReleaseMerge(&p.carrier)
		p.Written += int64(n)
		total += n
		b = b[n:]
		if len(b) == 0 {
			return total, nil
		}
	}
}

//go:norace
func (p *Pipe) closeRead() {
	p.rclosed = true
}

//go:norace
func (p *Pipe) closeWrite() {
	raceReleaseMerge(&p.carrier)
	p.wclosed = true
}

// PipeReader / PipeWriter are the two ends handed to code under test.
type PipeReader struct {
	P      *Pipe
	closed bool
	Tag    string
}

type PipeWriter struct {
	P      *Pipe
	closed bool
	Tag    string
}

//go:norace
func (r *PipeReader) Read(b []byte) (int, error) {
	if r.closed {
		return 0, ErrClosedPipe
	}
	return r.P.read(b)
}

//go:norace
func (r *PipeReader) Close() error {
	if r.closed {
		return ErrClosedPipe
	}
	r.closed = true
	r.P.closeRead()
	Emit("close-read", r.Tag, 0, "")
	YieldNow()
	return nil
}

// CloseQuiet closes without a scheduling point or error (process exit).
//
//go:norace
func (r *PipeReader) CloseQuiet() {
	if !r.closed {
		r.closed = true
		r.P.closeRead()
	}
}

//go:norace
func (r *PipeReader) Closed() bool { return r.closed }

//go:norace
func (w *PipeWriter) Write(b []byte) (int, error) {
	if w.closed {
		return 0, ErrClosedPipe
	}
	return w.P.write(b)
}

//go:norace
func (w *PipeWriter) Close() error {
	if w.closed {
		return ErrClosedPipe
	}
	w.closed = true
	w.P.closeWrite()
	Emit("close-write", w.Tag, 0, "")
	YieldNow()
	return nil
}

//go:norace
func (w *PipeWriter) CloseQuiet() {
	if !w.closed {
		w.closed = true
		w.P.closeWrite()
	}
}

//go:norace
func (w *PipeWriter) Closed() bool { return w.closed }

// IsEPIPE reports whether err is a broken-pipe error of a simulated pipe.
func IsEPIPE(err error) bool { return errors.Is(err, syscall.EPIPE) }

var (
	pPipeReadBlocked  = NewProbe("pipe.read-blocked")
	pPipeWriteBlocked = NewProbe("pipe.write-blocked")
	pPipeShortRead    = NewProbe("pipe.short-read")
	pPipeEPIPE        = NewProbe("fault.pipe-epipe")
)
