// Package zzmain is the worker entry point shared by the test binaries: it
// reads a job, executes seeded simulated runs of one engine, shrinks failing
// runs, and writes the aggregated result.
package zzmain

import (
	"encoding/json"
	"fmt"
	"os"
	"regexp"
	"sort"
	"time"

	"go.uber.org/thriftrw/internal/zzsim/simrt"
	"go.uber.org/thriftrw/internal/zzsim/world"
)

// Engine is one property's simulated world.
type Engine struct {
	Run   func(cfg simrt.Config, o world.Opts) *world.Result
	Cells func(tier string) int // systematic-floor cells (nil: none)
}

// Engines is filled by the registering packages (see register_*.go).
var Engines = map[string]Engine{}

type Job struct {
	Prop     string  `json:"prop"`
	Tier     string  `json:"tier"`
	Mode     string  `json:"mode"` // search | replay | hash
	Seed     uint64  `json:"seed"`
	Worker   int     `json:"worker"`
	Stride   int     `json:"stride"`
	Count    int     `json:"count"` // total seeded runs across all workers
	Floor    bool    `json:"floor"` // run the systematic floor cells first
	Kind     string  `json:"kind"`
	TmpDir   string  `json:"tmp"`
	Out      string  `json:"out"`
	BudgetS  float64 `json:"budget_s"`
	Replay   []int32 `json:"replay,omitempty"`
	Samples  int     `json:"samples"`
	MaxViol  int     `json:"max_violations"`
	ShrinkS  float64 `json:"shrink_s"`
	Repeat   int     `json:"repeat"` // hash mode: execute each seed this many times in-process
	StepCap  int64   `json:"step_cap"`
	FirstIdx int     `json:"first_index"`
	OnlyCell int     `json:"only_cell"` // >0: run just this floor cell (stored +1)
	Known    []Known `json:"known,omitempty"`
}

// Known is an open known finding: a failure whose check and message match is
// counted, not shrunk and not reported as a violation.
type Known struct {
	ID       string `json:"id"`
	Check    string `json:"check"`
	MsgRegex string `json:"msg_regex"`
	re       *regexp.Regexp
}

type Violation struct {
	Check     string   `json:"check"`
	Msg       string   `json:"msg"`
	Seed      uint64   `json:"seed"`
	Index     int      `json:"index"`
	Cell      int      `json:"cell"`
	RunSeed   uint64   `json:"run_seed"`
	Choices   []int32  `json:"choices"`
	OrigLen   int      `json:"original_choices"`
	ShrinkRun int      `json:"shrink_executions"`
	Trace     []string `json:"trace"`
	AllChecks []string `json:"all_checks"`
	Kind      string   `json:"kind"`
}

type Output struct {
	Prop        string            `json:"prop"`
	Worker      int               `json:"worker"`
	Runs        int64             `json:"runs"`
	Nontrivial  int64             `json:"nontrivial"`
	Keys        []uint64          `json:"keys"`
	SchedHashes []uint64          `json:"sched_hashes"`
	MapHashes   []uint64          `json:"map_hashes"`
	Steps       int64             `json:"steps"`
	Switches    int64             `json:"switches"`
	Counts      map[string]int64  `json:"counts"`
	Probes      map[string]int64  `json:"probes"`
	Violations  []Violation       `json:"violations"`
	Samples     []interface{}     `json:"samples"`
	Hashes      map[string]uint64 `json:"hashes,omitempty"`
	Notes       []string          `json:"notes"`
	Stopped     string            `json:"stopped"`
	WallS       float64           `json:"wall_s"`
	Aborted     int64             `json:"aborted_runs"`
	Diverged    []string          `json:"diverged,omitempty"`
	KnownHits   map[string]int64  `json:"known_hits,omitempty"`
	KnownSample map[string]string `json:"known_sample,omitempty"`
	ReplayFails []simrt.Failure   `json:"replay_failures,omitempty"`
	ReplayTrace []string          `json:"replay_trace,omitempty"`
}

func Main() int {
	path := os.Getenv("VSIM_JOB")
	data, err := os.ReadFile(path)
	if err != nil {
		fmt.Fprintln(os.Stderr, "worker: cannot read job:", err)
		return 2
	}
	var job Job
	if err := json.Unmarshal(data, &job); err != nil {
		fmt.Fprintln(os.Stderr, "worker: bad job:", err)
		return 2
	}
	eng, ok := Engines[job.Prop]
	if !ok {
		fmt.Fprintln(os.Stderr, "worker: no engine for", job.Prop)
		return 2
	}
	out := run(job, eng)
	writeCoverage()
	enc, _ := json.Marshal(out)
	if err := os.WriteFile(job.Out, enc, 0644); err != nil {
		fmt.Fprintln(os.Stderr, "worker: cannot write result:", err)
		return 2
	}
	return 0
}

// checkIn: list is one check name or several separated by '|'.
func checkIn(list, check string) bool {
	for len(list) > 0 {
		i := 0
		for i < len(list) && list[i] != '|' {
			i++
		}
		if list[:i] == check {
			return true
		}
		if i == len(list) {
			break
		}
		list = list[i+1:]
	}
	return false
}

// progress records which run is in flight, so that the orchestrator can
// attribute a fatal crash of the worker process to a seed.
var progressFile *os.File

func progress(kind string, n int) {
	if progressFile == nil {
		return
	}
	msg := fmt.Sprintf("%s %d\n%40s", kind, n, "")
	progressFile.WriteAt([]byte(msg[:40]), 0)
}

func run(job Job, eng Engine) *Output {
	start := time.Now()
	if job.Out != "" && job.Mode == "search" {
		progressFile, _ = os.Create(job.Out + ".progress")
	}
	out := &Output{Prop: job.Prop, Worker: job.Worker, Counts: map[string]int64{}}
	keys := map[uint64]struct{}{}
	sched := map[uint64]struct{}{}
	maps := map[uint64]struct{}{}
	if job.Stride < 1 {
		job.Stride = 1
	}
	if job.MaxViol == 0 {
		job.MaxViol = 3
	}
	opts := func(cell int, trace bool) world.Opts {
		return world.Opts{Prop: job.Prop, Kind: job.Kind, Cell: cell, Trace: trace, Tier: job.Tier, Worker: job.Worker, TmpDir: job.TmpDir}
	}
	cfgFor := func(seed uint64) simrt.Config {
		return simrt.Config{Seed: seed, StepCap: job.StepCap}
	}

	if job.Mode == "replay" {
		r := eng.Run(simrt.Config{Replay: job.Replay, IsReplay: true, StepCap: job.StepCap}, opts(-1, true))
		out.Runs = 1
		out.ReplayFails = r.Failures
		out.ReplayTrace = r.Trace
		out.Samples = append(out.Samples, r.Sample)
		out.WallS = time.Since(start).Seconds()
		out.Probes = simrt.ProbeSnapshot()
		return out
	}

	account := func(r *world.Result) {
		out.Runs++
		if r.Nontrivial {
			out.Nontrivial++
			keys[r.Key] = struct{}{}
		}
		if r.Switches > 0 {
			sched[r.SchedHash] = struct{}{}
		}
		if r.MapHash != 0 {
			maps[r.MapHash] = struct{}{}
		}
		out.Steps += r.Steps
		out.Switches += r.Switches
		if r.Aborted != "" {
			out.Aborted++
		}
		for k, v := range r.Counts {
			out.Counts[k] += v
		}
		for _, n := range r.Notes {
			if len(out.Notes) < 20 {
				out.Notes = append(out.Notes, n)
			}
		}
	}

	handle := func(r *world.Result, runSeed uint64, index, cell int) {
		if job.Prop != "C18" {
			// pool discipline belongs to C18; elsewhere it is an observation
			var keep []simrt.Failure
			for _, f := range r.Failures {
				if len(f.Check) > 5 && f.Check[:5] == "pool/" {
					r.Notes = append(r.Notes, "pool discipline violated (C18's property): "+f.Check+": "+f.Msg)
					continue
				}
				keep = append(keep, f)
			}
			r.Failures = keep
		}
		account(r)
		if len(r.Failures) == 0 {
			return
		}
		for i := range job.Known {
			k := &job.Known[i]
			if k.re == nil {
				k.re = regexp.MustCompile(k.MsgRegex)
			}
			if checkIn(k.Check, r.Failures[0].Check) && k.re.MatchString(r.Failures[0].Msg) {
				if out.KnownHits == nil {
					out.KnownHits = map[string]int64{}
					out.KnownSample = map[string]string{}
				}
				out.KnownHits[k.ID]++
				if out.KnownSample[k.ID] == "" {
					out.KnownSample[k.ID] = r.Failures[0].Msg
				}
				return
			}
		}
		v := Violation{Check: r.Failures[0].Check, Msg: r.Failures[0].Msg, Seed: job.Seed, Index: index, Cell: cell, RunSeed: runSeed, OrigLen: len(r.Choices), Kind: job.Kind}
		for _, f := range r.Failures {
			v.AllChecks = append(v.AllChecks, f.Check)
		}
		budget := job.ShrinkS
		if budget == 0 {
			budget = 30
		}
		min, execs := Shrink(r.Choices, v.Check, time.Duration(budget*float64(time.Second)), func(ch []int32) *world.Result {
			return eng.Run(simrt.Config{Replay: ch, IsReplay: true, StepCap: job.StepCap}, opts(-1, false))
		})
		v.ShrinkRun = execs
		v.Choices = min
		fr := eng.Run(simrt.Config{Replay: min, IsReplay: true, StepCap: job.StepCap}, opts(-1, true))
		v.Trace = fr.Trace
		if len(fr.Failures) > 0 {
			v.Msg = fr.Failures[0].Msg
			v.Check = fr.Failures[0].Check
		} else {
			v.Trace = append(v.Trace, "WARNING: minimised replay did not fail again (non-determinism in the harness?)")
		}
		out.Violations = append(out.Violations, v)
	}

	deadline := time.Duration(job.BudgetS * float64(time.Second))
	over := func() bool { return job.BudgetS > 0 && time.Since(start) > deadline }

	if job.Mode == "hash" {
		out.Hashes = map[string]uint64{}
		rep := job.Repeat
		if rep < 1 {
			rep = 1
		}
		for i := job.Worker; i < job.Count; i += job.Stride {
			idx := job.FirstIdx + i
			runSeed := simrt.Derive(job.Seed, uint64(idx))
			var h0 uint64
			for k := 0; k < rep; k++ {
				r := eng.Run(cfgFor(runSeed), opts(-1, false))
				if k == 0 {
					h0 = r.Hash
					account(r)
					// replaying the recorded choices must give the same run
					rr := eng.Run(simrt.Config{Replay: r.Choices, IsReplay: true, StepCap: job.StepCap}, opts(-1, false))
					if rr.Hash != r.Hash {
						out.Diverged = append(out.Diverged, fmt.Sprintf("index %d: replay hash %x != search hash %x", idx, rr.Hash, r.Hash))
					}
				} else if r.Hash != h0 {
					out.Diverged = append(out.Diverged, fmt.Sprintf("index %d: in-process repeat %d hash %x != %x", idx, k, r.Hash, h0))
				}
			}
			out.Hashes[fmt.Sprint(idx)] = h0
		}
		out.WallS = time.Since(start).Seconds()
		out.Probes = simrt.ProbeSnapshot()
		return out
	}

	if job.OnlyCell > 0 {
		c := job.OnlyCell - 1
		runSeed := simrt.Derive(job.Seed, 0xf100, uint64(c))
		progress("cell", c)
		handle(eng.Run(cfgFor(runSeed), opts(c, false)), runSeed, -1, c)
		out.Probes = simrt.ProbeSnapshot()
		out.WallS = time.Since(start).Seconds()
		return out
	}
	// systematic floor
	if job.Floor && eng.Cells != nil {
		n := eng.Cells(job.Tier)
		for c := job.Worker; c < n; c += job.Stride {
			if len(out.Violations) >= job.MaxViol {
				break
			}
			runSeed := simrt.Derive(job.Seed, 0xf100, uint64(c))
			progress("cell", c)
			r := eng.Run(cfgFor(runSeed), opts(c, len(out.Samples) < job.Samples && c%7 == 3))
			if r.Sample != nil && len(out.Samples) < job.Samples {
				out.Samples = append(out.Samples, r.Sample)
			}
			handle(r, runSeed, -1, c)
			out.Counts["floor.cells-run"]++
		}
	}
	for i := job.Worker; i < job.Count; i += job.Stride {
		if over() {
			out.Stopped = "time budget reached"
			break
		}
		if len(out.Violations) >= job.MaxViol {
			out.Stopped = "violation limit reached"
			break
		}
		idx := job.FirstIdx + i
		runSeed := simrt.Derive(job.Seed, uint64(idx))
		wantSample := len(out.Samples) < job.Samples && (i/job.Stride)%5 == 1
		progress("index", idx)
		r := eng.Run(cfgFor(runSeed), opts(-1, wantSample))
		if r.Sample != nil && len(out.Samples) < job.Samples {
			out.Samples = append(out.Samples, r.Sample)
		}
		handle(r, runSeed, idx, -1)
	}
	for k := range keys {
		out.Keys = append(out.Keys, k)
	}
	for k := range sched {
		out.SchedHashes = append(out.SchedHashes, k)
	}
	for k := range maps {
		out.MapHashes = append(out.MapHashes, k)
	}
	sort.Slice(out.Keys, func(i, j int) bool { return out.Keys[i] < out.Keys[j] })
	out.Probes = simrt.ProbeSnapshot()
	out.WallS = time.Since(start).Seconds()
	return out
}
