package wirew

import (
	"bytes"
	"encoding/binary"
	"fmt"
	"math"
	"reflect"
	"sort"
	"strings"

	"go.uber.org/thriftrw/internal/zzsim/gen/registry"
	"go.uber.org/thriftrw/internal/zzsim/ref"
	"go.uber.org/thriftrw/internal/zzsim/refwire"
	"go.uber.org/thriftrw/internal/zzsim/simio"
	"go.uber.org/thriftrw/internal/zzsim/simrt"
	"go.uber.org/thriftrw/internal/zzsim/world"
	tbinary "go.uber.org/thriftrw/protocol/binary"
	"go.uber.org/thriftrw/wire"
)

const countCap = 1 << 15

// fillMode: 0 = random; 1 = everything set; 2 = exactly one member of every
// struct whose fields are all nillable (unions), everything else set.
var fillMode int

func nillable(k reflect.Kind) bool {
	return k == reflect.Ptr || k == reflect.Slice || k == reflect.Map
}

// fill sets v (addressable) to a value drawn from the run's choices.
func fill(v reflect.Value, depth int) {
	switch v.Kind() {
	case reflect.Bool:
		v.SetBool(ch("go.bool", 2) == 1)
	case reflect.Int8:
		v.SetInt(genInt(8))
	case reflect.Int16:
		v.SetInt(genInt(16))
	case reflect.Int32:
		if v.Type().Name() != "int32" && simrt.Flip("go.enum-small", 0.7) {
			v.SetInt(int64(ch("go.enum", 6)))
		} else {
			v.SetInt(genInt(32))
		}
	case reflect.Int64, reflect.Int:
		v.SetInt(genInt(64))
	case reflect.Float64:
		if k := ch("go.dbl", len(dblBits)+1); k < len(dblBits) {
			v.SetFloat(math.Float64frombits(dblBits[k]))
		} else {
			v.SetFloat(math.Float64frombits(rnd("go.dbl-rnd")))
		}
	case reflect.String:
		b := genBytes(false)
		if len(b) > 40 {
			b = b[:40]
		}
		v.SetString(string(b))
	case reflect.Slice:
		if v.Type().Elem().Kind() == reflect.Uint8 {
			k := ch("go.bytes", 3)
			if k == 0 {
				v.Set(reflect.Zero(v.Type()))
				return
			}
			b := genBytes(false)
			if len(b) > 40 {
				b = b[:40]
			}
			if k == 1 {
				b = []byte{}
			}
			v.SetBytes(b)
			return
		}
		k := ch("go.slice", 5)
		if fillMode != 0 && k == 0 && depth <= 5 {
			k = 2
		}
		if k == 0 || depth > 5 {
			v.Set(reflect.Zero(v.Type()))
			return
		}
		s := reflect.MakeSlice(v.Type(), k-1, k-1)
		for i := 0; i < k-1; i++ {
			fill(s.Index(i), depth+1)
		}
		v.Set(s)
	case reflect.Map:
		k := ch("go.map", 4)
		if fillMode != 0 && k == 0 && depth <= 5 {
			k = 2
		}
		if k == 0 || depth > 5 {
			v.Set(reflect.Zero(v.Type()))
			return
		}
		m := reflect.MakeMap(v.Type())
		for i := 0; i < k-1; i++ {
			key := reflect.New(v.Type().Key()).Elem()
			fill(key, depth+1)
			val := reflect.New(v.Type().Elem()).Elem()
			fill(val, depth+1)
			m.SetMapIndex(key, val)
		}
		v.Set(m)
	case reflect.Ptr:
		if depth > 6 || (ch("go.ptr", 3) == 0 && fillMode == 0) {
			v.Set(reflect.Zero(v.Type()))
			return
		}
		p := reflect.New(v.Type().Elem())
		fill(p.Elem(), depth+1)
		v.Set(p)
	case reflect.Struct:
		n := v.NumField()
		if fillMode == 2 && n > 1 {
			union := true
			for i := 0; i < n; i++ {
				if !nillable(v.Field(i).Kind()) {
					union = false
				}
			}
			if union {
				// prefer a member that is not a struct pointer when deep, so recursion ends
				pick := ch("go.union-member", n)
				if depth > 3 {
					for k := 0; k < n; k++ {
						f := v.Field((pick + k) % n)
						if f.Kind() != reflect.Ptr || f.Type().Elem().Kind() != reflect.Struct {
							pick = (pick + k) % n
							break
						}
					}
				}
				for i := 0; i < n; i++ {
					f := v.Field(i)
					if !f.CanSet() {
						continue
					}
					if i == pick {
						fill(f, depth+1)
					} else {
						f.Set(reflect.Zero(f.Type()))
					}
				}
				return
			}
		}
		for i := 0; i < n; i++ {
			f := v.Field(i)
			if f.CanSet() {
				fill(f, depth+1)
			}
		}
	}
}

// toRef converts a generated value into the harness tree through its ToWire.
func toRef(x registry.Generated) (v ref.Val, err error) {
	defer func() {
		if r := recover(); r != nil {
			err = fmt.Errorf("panic in ToWire: %v", r)
		}
	}()
	w, err := x.ToWire()
	if err != nil {
		return ref.Val{}, err
	}
	return refwire.Force(w)
}

// validValue draws a Go value of the entry's type whose ToWire succeeds.
func validValue(e registry.Entry) (registry.Generated, ref.Val, bool) {
	defer func() { fillMode = 0 }()
	for try, mode := range []int{0, 0, 2, 1, 2, 2} {
		_ = try
		fillMode = mode
		x := e.New()
		fill(reflect.ValueOf(x).Elem(), 0)
		fillMode = 0
		if v, err := toRef(x); err == nil {
			return x, v, true
		}
	}
	return nil, ref.Val{}, false
}

// evolve applies a schema-evolution style edit to a struct value tree.
func evolve(v ref.Val, depth int) (ref.Val, string) {
	if v.T != ref.TStruct {
		return v, "none"
	}
	out := ref.Val{T: ref.TStruct, Fields: append([]ref.Field{}, v.Fields...)}
	op := ch("evo.op", 7)
	n := len(out.Fields)
	switch {
	case op == 0 || n == 0:
		// add a field the reader does not know (or knows under another type)
		id := fieldIDs[ch("evo.new-id", len(fieldIDs))]
		f := ref.Field{ID: id, V: genVal(genType(), 0, genOpts{maxDepth: 2})}
		pos := ch("evo.pos", n+1)
		out.Fields = append(out.Fields[:pos], append([]ref.Field{f}, out.Fields[pos:]...)...)
		return out, "add-field"
	case op == 1:
		i := ch("evo.field", n)
		out.Fields[i].V = genVal(genType(), 0, genOpts{maxDepth: 2})
		return out, "retype-field"
	case op == 2:
		i := ch("evo.field", n)
		out.Fields = append(out.Fields[:i], out.Fields[i+1:]...)
		return out, "drop-field"
	case op == 3:
		i := ch("evo.field", n)
		out.Fields = append(out.Fields, out.Fields[i])
		return out, "duplicate-field"
	case op == 4:
		// change the element type of a container field
		i := ch("evo.field", n)
		f := out.Fields[i].V
		switch f.T {
		case ref.TList, ref.TSet:
			et := genType()
			nv := ref.Val{T: f.T, VT: et}
			for range f.Items {
				nv.Items = append(nv.Items, genVal(et, 1, genOpts{maxDepth: 2}))
			}
			out.Fields[i].V = nv
			return out, "container-elem-type"
		case ref.TMap:
			kt, vt := genType(), f.VT
			if ch("evo.map-side", 2) == 1 {
				kt, vt = f.KT, genType()
			}
			nv := ref.Val{T: ref.TMap, KT: kt, VT: vt}
			for k := 0; k+1 < len(f.Items); k += 2 {
				nv.Items = append(nv.Items, genVal(kt, 1, genOpts{maxDepth: 2}), genVal(vt, 1, genOpts{maxDepth: 2}))
			}
			out.Fields[i].V = nv
			return out, "container-elem-type"
		}
		return out, "none"
	case op == 5 && depth < 3:
		// recurse into a nested struct (directly or through a container)
		i := ch("evo.field", n)
		f := out.Fields[i].V
		switch f.T {
		case ref.TStruct:
			nv, name := evolve(f, depth+1)
			out.Fields[i].V = nv
			return out, "nested:" + name
		case ref.TList, ref.TSet, ref.TMap:
			if len(f.Items) > 0 {
				k := ch("evo.item", len(f.Items))
				if f.Items[k].T == ref.TStruct {
					nf := f
					nf.Items = append([]ref.Val{}, f.Items...)
					nv, name := evolve(f.Items[k], depth+1)
					nf.Items[k] = nv
					out.Fields[i].V = nf
					return out, "nested-item:" + name
				}
			}
		}
		return out, "none"
	default:
		// change a field id
		i := ch("evo.field", n)
		out.Fields[i].ID = fieldIDs[ch("evo.new-id", len(fieldIDs))]
		return out, "renumber-field"
	}
}

// clampCounts walks a struct encoding the way a schema-less skip would and
// caps every container count above max, so that the pre-sizing weakness that
// C13 describes cannot exhaust memory here. Nothing about it is reported.
func clampCounts(b []byte, max uint32) []byte {
	out := append([]byte{}, b...)
	var walk func(off int, t byte, depth int) int
	walk = func(off int, t byte, depth int) int {
		if off < 0 || depth > 64 {
			return -1
		}
		need := func(n int) bool { return off+n <= len(out) }
		switch t {
		case ref.TBool, ref.TI8:
			if !need(1) {
				return -1
			}
			return off + 1
		case ref.TI16:
			if !need(2) {
				return -1
			}
			return off + 2
		case ref.TI32:
			if !need(4) {
				return -1
			}
			return off + 4
		case ref.TI64, ref.TDouble:
			if !need(8) {
				return -1
			}
			return off + 8
		case ref.TBinary:
			if !need(4) {
				return -1
			}
			n := int32(binary.BigEndian.Uint32(out[off:]))
			if n < 0 || off+4+int(n) > len(out) {
				return -1
			}
			return off + 4 + int(n)
		case ref.TStruct:
			for {
				if !need(1) {
					return -1
				}
				ft := out[off]
				off++
				if ft == 0 {
					return off
				}
				if off+2 > len(out) {
					return -1
				}
				off += 2
				off = walk(off, ft, depth+1)
				if off < 0 {
					return -1
				}
			}
		case ref.TList, ref.TSet:
			if !need(5) {
				return -1
			}
			et := out[off]
			n := binary.BigEndian.Uint32(out[off+1:])
			if n > max && n < 0x80000000 {
				binary.BigEndian.PutUint32(out[off+1:], max)
				n = max
				pClamped.Hit()
			}
			off += 5
			if n >= 0x80000000 {
				return -1
			}
			for i := uint32(0); i < n; i++ {
				off = walk(off, et, depth+1)
				if off < 0 {
					return -1
				}
			}
			return off
		case ref.TMap:
			if !need(6) {
				return -1
			}
			kt, vt := out[off], out[off+1]
			n := binary.BigEndian.Uint32(out[off+2:])
			if n > max && n < 0x80000000 {
				binary.BigEndian.PutUint32(out[off+2:], max)
				n = max
				pClamped.Hit()
			}
			off += 6
			if n >= 0x80000000 {
				return -1
			}
			for i := uint32(0); i < n; i++ {
				off = walk(off, kt, depth+1)
				if off < 0 {
					return -1
				}
				off = walk(off, vt, depth+1)
				if off < 0 {
					return -1
				}
			}
			return off
		}
		return -1
	}
	walk(0, ref.TStruct, 0)
	return out
}

type genOutcome struct {
	ok    bool
	obj   registry.Generated // the decoded Go value itself
	val   ref.Val
	str   string
	err   string
	panic string
	used  int64
}

func (o genOutcome) String() string {
	if o.panic != "" {
		return "PANIC " + first(o.panic, 300)
	}
	if !o.ok {
		return "ERR(" + first(o.err, 100) + ")"
	}
	return "OK(" + first(o.val.String(), 140) + ")"
}

func guardGen(f func() genOutcome) (o genOutcome) {
	defer func() {
		if r := recover(); r != nil {
			o = genOutcome{panic: fmt.Sprint(r)}
		}
	}()
	return f()
}

// describe gives the comparable form of a decoded value: its ToWire tree.
func describe(x registry.Generated) genOutcome {
	v, err := toRef(x)
	if err != nil {
		// decoded fine but cannot be re-serialised: compare by its String()
		return genOutcome{ok: true, obj: x, str: x.String(), val: ref.Val{}, err: "towire: " + err.Error()}
	}
	return genOutcome{ok: true, obj: x, val: v}
}

// goEqual compares two decoded Go values field by field: a nil pointer, slice or map is
// not an empty one (the generated Equals methods draw the same line; serialising would
// hide it where ToWire fills in defaults), floats compare by their bits (NaN equals itself).
func goEqual(a, b reflect.Value) bool {
	if a.IsValid() != b.IsValid() {
		return false
	}
	if !a.IsValid() {
		return true
	}
	if a.Type() != b.Type() {
		return false
	}
	switch a.Kind() {
	case reflect.Ptr, reflect.Interface:
		if a.IsNil() || b.IsNil() {
			return a.IsNil() == b.IsNil()
		}
		return goEqual(a.Elem(), b.Elem())
	case reflect.Struct:
		for i := 0; i < a.NumField(); i++ {
			if !goEqual(a.Field(i), b.Field(i)) {
				return false
			}
		}
		return true
	case reflect.Slice:
		if a.IsNil() != b.IsNil() || a.Len() != b.Len() {
			return false
		}
		for i := 0; i < a.Len(); i++ {
			if !goEqual(a.Index(i), b.Index(i)) {
				return false
			}
		}
		return true
	case reflect.Map:
		if a.IsNil() != b.IsNil() || a.Len() != b.Len() {
			return false
		}
		// by sorted entries rather than by lookup: a NaN key cannot be looked up
		// (several NaN keys of the same bits may carry different values: match as multisets)
		ae, be := sortedEntries(a), sortedEntries(b)
		used := make([]bool, len(be))
		for i := range ae {
			found := false
			for j := range be {
				if !used[j] && goEqual(ae[i][0], be[j][0]) && goEqual(ae[i][1], be[j][1]) {
					used[j], found = true, true
					break
				}
			}
			if !found {
				return false
			}
		}
		return true
	case reflect.Float32, reflect.Float64:
		return math.Float64bits(a.Float()) == math.Float64bits(b.Float())
	case reflect.Bool:
		return a.Bool() == b.Bool()
	case reflect.Int, reflect.Int8, reflect.Int16, reflect.Int32, reflect.Int64:
		return a.Int() == b.Int()
	case reflect.String:
		return a.String() == b.String()
	}
	return reflect.DeepEqual(a.Interface(), b.Interface())
}

// scribble edits a decoded value in place wherever that is possible without replacing the
// containers themselves: slice elements are zeroed, map entries deleted, structs behind
// pointers edited field by field.
func scribble(v reflect.Value, depth int) {
	if depth > 6 || !v.IsValid() {
		return
	}
	switch v.Kind() {
	case reflect.Ptr, reflect.Interface:
		if !v.IsNil() {
			scribble(v.Elem(), depth+1)
		}
	case reflect.Struct:
		for i := 0; i < v.NumField(); i++ {
			if v.Field(i).CanSet() {
				scribble(v.Field(i), depth+1)
			}
		}
	case reflect.Slice:
		for i := 0; i < v.Len(); i++ {
			el := v.Index(i)
			if el.Kind() == reflect.Ptr || el.Kind() == reflect.Slice || el.Kind() == reflect.Map {
				scribble(el, depth+1)
			} else if el.CanSet() {
				el.Set(reflect.Zero(el.Type()))
			}
		}
		if v.Len() > 1 && v.Index(0).CanSet() {
			// swap the ends
			a, b := v.Index(0).Interface(), v.Index(v.Len()-1).Interface()
			v.Index(0).Set(reflect.ValueOf(b))
			v.Index(v.Len() - 1).Set(reflect.ValueOf(a))
		}
	case reflect.Map:
		for _, k := range v.MapKeys() {
			scribble(v.MapIndex(k), depth+1)
			v.SetMapIndex(k, reflect.Value{})
		}
	case reflect.Int8, reflect.Int16, reflect.Int32, reflect.Int64, reflect.Int:
		if v.CanSet() {
			v.SetInt(v.Int() ^ 0x55)
		}
	case reflect.Float64:
		if v.CanSet() {
			v.SetFloat(-1)
		}
	case reflect.Bool:
		if v.CanSet() {
			v.SetBool(!v.Bool())
		}
	case reflect.String:
		if v.CanSet() {
			v.SetString("scribbled")
		}
	}
}

func sortedEntries(m reflect.Value) [][2]reflect.Value {
	var out [][2]reflect.Value
	it := m.MapRange()
	for it.Next() {
		out = append(out, [2]reflect.Value{it.Key(), it.Value()})
	}
	sort.SliceStable(out, func(i, j int) bool { return simrt.LessReflect(out[i][0], out[j][0]) })
	return out
}

// goCanon prints a decoded Go value in a form that is a function of the value alone: map
// entries in the order of their printed keys and values (fmt prints several NaN keys of a map
// in no particular order), floats by their bits, nil told apart from empty.
func goCanon(v reflect.Value) string {
	if !v.IsValid() {
		return "<invalid>"
	}
	switch v.Kind() {
	case reflect.Ptr, reflect.Interface:
		if v.IsNil() {
			return "nil"
		}
		return "&" + goCanon(v.Elem())
	case reflect.Struct:
		var parts []string
		for i := 0; i < v.NumField(); i++ {
			parts = append(parts, v.Type().Field(i).Name+":"+goCanon(v.Field(i)))
		}
		return "{" + strings.Join(parts, " ") + "}"
	case reflect.Slice:
		if v.IsNil() {
			return "nil[]"
		}
		if v.Type().Elem().Kind() == reflect.Uint8 {
			return fmt.Sprintf("x%x", v.Bytes())
		}
		fallthrough
	case reflect.Array:
		var parts []string
		for i := 0; i < v.Len(); i++ {
			parts = append(parts, goCanon(v.Index(i)))
		}
		return "[" + strings.Join(parts, " ") + "]"
	case reflect.Map:
		if v.IsNil() {
			return "nil{}"
		}
		var parts []string
		it := v.MapRange()
		for it.Next() {
			parts = append(parts, goCanon(it.Key())+"=>"+goCanon(it.Value()))
		}
		sort.Strings(parts)
		return "map{" + strings.Join(parts, " ") + "}"
	case reflect.Float32, reflect.Float64:
		return fmt.Sprintf("f%016x", math.Float64bits(v.Float()))
	case reflect.String:
		return fmt.Sprintf("%q", v.String())
	}
	return fmt.Sprint(v.Interface())
}

// goDiff explains a difference that the serialised forms do not show.
func goDiff(a, b genOutcome) string {
	if a.obj == nil || b.obj == nil || a.err != "" || b.err != "" || !ref.Equal(a.val, b.val) {
		return ""
	}
	return fmt.Sprintf(" - both serialise alike, but the Go values differ (nil against non-nil): value-based %s, streaming %s", first(a.obj.String(), 300), first(b.obj.String(), 300))
}

func sameGen(a, b genOutcome) bool {
	if (a.err != "") != (b.err != "") {
		return false
	}
	if a.err != "" {
		// decoded but not serialisable again (a required field missing in a nested value, ...):
		// compare the Go values themselves; their String() is no good for that, fmt prints
		// several NaN keys of a map in no particular order
		if a.obj != nil && b.obj != nil {
			return goEqual(reflect.ValueOf(a.obj), reflect.ValueOf(b.obj))
		}
		return a.str == b.str
	}
	if !ref.Equal(a.val, b.val) {
		return false
	}
	if a.obj != nil && b.obj != nil && !goEqual(reflect.ValueOf(a.obj), reflect.ValueOf(b.obj)) {
		return false
	}
	return true
}

func valueBased(e registry.Entry, b []byte) genOutcome {
	return guardGen(func() genOutcome {
		w, err := tbinary.Default.Decode(bytes.NewReader(b), wire.TStruct)
		if err != nil {
			return genOutcome{err: "decode: " + err.Error()}
		}
		x := e.New()
		if err := x.FromWire(w); err != nil {
			return genOutcome{err: err.Error()}
		}
		return describe(x)
	})
}

// reusedReceivers decodes b by both paths into receivers that already hold an earlier message
// (first, decoded into each of them the same way): a variable reused for consecutive messages.
func reusedReceivers(e registry.Entry, first, b []byte) (vb, st genOutcome, ok bool) {
	prep := func() (registry.Generated, bool) {
		x := e.New()
		o := guardGen(func() genOutcome {
			r, _ := simio.NewReader(first, simio.Plan{TruncAt: -1, ErrAt: -1})
			sr := tbinary.Default.Reader(r)
			defer sr.Close()
			if err := x.Decode(sr); err != nil {
				return genOutcome{err: err.Error()}
			}
			return genOutcome{ok: true}
		})
		return x, o.ok
	}
	x1, ok1 := prep()
	x2, ok2 := prep()
	if !ok1 || !ok2 {
		return vb, st, false
	}
	vb = guardGen(func() genOutcome {
		w, err := tbinary.Default.Decode(bytes.NewReader(b), wire.TStruct)
		if err != nil {
			return genOutcome{err: "decode: " + err.Error()}
		}
		if err := x1.FromWire(w); err != nil {
			return genOutcome{err: err.Error()}
		}
		return describe(x1)
	})
	st = guardGen(func() genOutcome {
		r, _ := simio.NewReader(b, simio.Plan{TruncAt: -1, ErrAt: -1})
		sr := tbinary.Default.Reader(r)
		defer sr.Close()
		if err := x2.Decode(sr); err != nil {
			return genOutcome{err: err.Error()}
		}
		return describe(x2)
	})
	return vb, st, true
}

func streaming(e registry.Entry, b []byte, plan simio.Plan) genOutcome {
	return guardGen(func() genOutcome {
		r, raw := simio.NewReader(b, plan)
		raw.Budget = budgetFor(len(b))
		sr := tbinary.Default.Reader(r)
		defer sr.Close()
		x := e.New()
		if err := x.Decode(sr); err != nil {
			return genOutcome{err: err.Error()}
		}
		o := describe(x)
		o.used = int64(raw.Offset())
		return o
	})
}

// damage makes a valid Go value invalid in one of the ways C04 lists.
func damage(v reflect.Value, depth int) bool {
	if depth > 4 {
		return false
	}
	switch v.Kind() {
	case reflect.Ptr:
		if v.IsNil() {
			return false
		}
		return damage(v.Elem(), depth+1)
	case reflect.Struct:
		n := v.NumField()
		if n == 0 {
			return false
		}
		start := ch("dmg.field", n)
		for k := 0; k < n; k++ {
			f := v.Field((start + k) % n)
			if !f.CanSet() {
				continue
			}
			switch f.Kind() {
			case reflect.Ptr:
				if f.IsNil() {
					// set one more member (second union member / unexpected optional)
					p := reflect.New(f.Type().Elem())
					fill(p.Elem(), depth+2)
					f.Set(p)
					return true
				}
				if ch("dmg.ptr", 2) == 0 {
					f.Set(reflect.Zero(f.Type())) // required pointer nil / union member removed
					return true
				}
				if damage(f, depth+1) {
					return true
				}
			case reflect.Slice:
				if f.Type().Elem().Kind() == reflect.Uint8 {
					continue
				}
				if f.Len() > 0 {
					el := f.Index(ch("dmg.item", f.Len()))
					switch el.Kind() {
					case reflect.Ptr, reflect.Slice, reflect.Map:
						el.Set(reflect.Zero(el.Type())) // nil element inside a container
						return true
					case reflect.Struct:
						if damage(el, depth+1) {
							return true
						}
					}
				} else if ch("dmg.nil-container", 2) == 0 {
					f.Set(reflect.Zero(f.Type()))
					return true
				}
			case reflect.Map:
				if f.Len() > 0 {
					iter := f.MapRange()
					iter.Next()
					switch f.Type().Elem().Kind() {
					case reflect.Ptr, reflect.Slice, reflect.Map:
						f.SetMapIndex(iter.Key(), reflect.Zero(f.Type().Elem()))
						return true
					}
				}
			}
		}
	}
	return false
}

// RunC04 is one C04 run.
func RunC04(cfg simrt.Config, o world.Opts) *world.Result {
	res := &world.Result{}
	if o.Trace {
		cfg.KeepLabels = true
	}
	cfg.StepCap = 1 << 40
	s := simrt.New(cfg)
	var lines []string
	logf := func(f string, a ...interface{}) {
		if o.Trace {
			lines = append(lines, fmt.Sprintf(f, a...))
		}
	}
	h := world.NewHasher()
	s.Inline(func() {
		s.SetMapOrder(simrt.MapOrder(ch("sim.map-order", 4)))
		if len(registry.Types) == 0 {
			res.Failf("C04/harness", "the registry of generated types is empty")
			return
		}
		e := registry.Types[ch("c04.type", len(registry.Types))]
		res.Count("c04.type."+e.Name, 1)
		if ch("c04.side", 3) == 2 {
			c04Serialize(res, e, logf, h)
			return
		}
		// ---- deserialization
		var b []byte
		desc := ""
		_, v, ok := validValue(e)
		if !ok {
			res.Count("c04.no-valid-value."+e.Name, 1)
			v = genVal(ref.TStruct, 0, genOpts{maxDepth: 2})
			desc = "random struct"
		} else {
			desc = "valid"
		}
		inputKind := simrt.ChoiceBias("c04.input", 3, 0.3)
		if ok && simrt.Flip("c04.long-list", 0.0004) {
			// a list or set of scalars with really more than 2^20 elements
			for i, f := range v.Fields {
				if (f.V.T == ref.TList || f.V.T == ref.TSet) && f.V.VT != ref.TStruct && f.V.VT != ref.TList && f.V.VT != ref.TSet && f.V.VT != ref.TMap && f.V.VT != ref.TBinary {
					n := (1 << 20) + 1 + ch("c04.long-list-extra", 3)
					long := ref.Val{T: f.V.T, VT: f.V.VT, Items: make([]ref.Val, n)}
					for k := range long.Items {
						long.Items[k] = ref.Val{T: f.V.VT, I: int64(k % 2)}
					}
					nv := ref.Val{T: ref.TStruct, Fields: append([]ref.Field{}, v.Fields...)}
					nv.Fields[i].V = long
					v = nv
					inputKind = 0
					desc += "+long-list"
					res.Count("c04.inputs-with-a-list-of-more-than-2^20-elements", 1)
					break
				}
			}
		}
		switch inputKind {
		case 1:
			n := 1 + ch("c04.evolutions", 3)
			for i := 0; i < n; i++ {
				var name string
				v, name = evolve(v, 0)
				desc += "+" + name
			}
			b = ref.Encode(nil, v)
		case 2:
			var m ref.Marks
			b = ref.EncodeMarked(nil, v, &m)
			n := 1 + ch("c04.mutations", 3)
			for i := 0; i < n; i++ {
				var name string
				b, name = mutate(b, &m, countCap)
				desc += "+" + name
			}
			b = clampCounts(b, countCap)
		default:
			b = ref.Encode(nil, v)
		}
		logf("type %s, input (%s) %d bytes: %x", e.Name, desc, len(b), clip(b, 128))
		if simrt.Flip("c04.prehistory", 0.4) {
			// the process has decoded other inputs before, some of them rejected half-way: whatever
			// those left in the codec's pools is what this decode starts from
			n := 1 + ch("c04.prehistory-n", 4)
			for i := 0; i < n; i++ {
				pe := registry.Types[ch("c04.prehistory-type", len(registry.Types))]
				_, pv, pok := validValue(pe)
				if !pok {
					pv = genVal(ref.TStruct, 0, genOpts{maxDepth: 2})
				}
				for k := ch("c04.prehistory-evolved", 4); k > 0; k-- {
					pv, _ = evolve(pv, 0)
				}
				pb := ref.Encode(nil, pv)
				var po genOutcome
				if ch("c04.prehistory-path", 3) != 1 {
					po = valueBased(pe, pb)
				} else {
					po = streaming(pe, pb, simio.Plan{TruncAt: -1, ErrAt: -1})
				}
				logf("earlier in this process: %s decoded from %x -> %s", pe.Name, clip(pb, 48), po)
				if po.panic != "" {
					res.Failf("C04/panic", "%s: decoding %x panicked: %s", pe.Name, clip(pb, 96), po.panic)
					return
				}
			}
			res.Count("c04.decodes-with-a-prehistory", 1)
		}
		vb := valueBased(e, b)
		full := simio.Plan{TruncAt: -1, ErrAt: -1}
		st := streaming(e, b, full)
		logf("value-based: %s", vb)
		logf("streaming (full delivery): %s", st)
		h.Str(vb.String())
		h.Str(st.String())
		res.Nontrivial = true
		if vb.panic != "" {
			res.Failf("C04/panic", "%s: value-based path panicked on %x: %s", e.Name, clip(b, 96), vb.panic)
			return
		}
		if st.panic != "" {
			res.Failf("C04/panic", "%s: streaming path panicked on %x: %s", e.Name, clip(b, 96), st.panic)
			return
		}
		if vb.ok && st.ok && vb.obj != nil && st.obj != nil && sameGen(vb, st) && simrt.Flip("c04.decode-scribble-decode", 0.15) {
			// the application edits what it decoded, in place, and decodes the same bytes again:
			// the second result must be what the first one was
			scribble(reflect.ValueOf(st.obj), 0)
			scribble(reflect.ValueOf(vb.obj), 0)
			st2 := streaming(e, b, full)
			vb2 := valueBased(e, b)
			res.Count("c04.decoded-again-after-editing-the-first-result", 1)
			if st2.ok && vb2.ok && !sameGen(vb2, st2) {
				res.Failf("C04/values-differ", "%s on %x (%s), decoded a second time after the first results were edited in place: value-based %s, streaming %s%s", e.Name, clip(b, 96), desc, vb2, st2, goDiff(vb2, st2))
				return
			}
			if st2.ok != st.ok || vb2.ok != vb.ok {
				res.Failf("C04/values-differ", "%s on %x (%s): accepted at first, second decode of the same bytes: value-based %s, streaming %s", e.Name, clip(b, 96), desc, vb2, st2)
				return
			}
			vb, st = vb2, st2
		}
		if okv, vv, has := validValue(e); has && okv != nil && simrt.Flip("c04.reused-receiver", 0.15) {
			// one variable for consecutive messages: both paths start from a receiver that
			// holds an earlier (valid) message and must still agree
			if simrt.Flip("c04.reused-first-evolved", 0.3) {
				vv, _ = evolve(vv, 0)
			}
			if rvb, rst, ok := reusedReceivers(e, ref.Encode(nil, vv), b); ok {
				res.Count("c04.decodes-into-a-reused-receiver", 1)
				switch {
				case rvb.panic != "" || rst.panic != "":
					res.Failf("C04/panic", "%s: decoding %x into a receiver that holds an earlier message panicked: %s%s", e.Name, clip(b, 96), rvb.panic, rst.panic)
					return
				case rvb.ok && rst.ok && !sameGen(rvb, rst):
					res.Failf("C04/values-differ", "%s on %x (%s), decoded into receivers that held an earlier message: value-based %s, streaming %s%s", e.Name, clip(b, 96), desc, rvb, rst, goDiff(rvb, rst))
					return
				case rvb.ok && !rst.ok:
					res.Failf("C04/stream-rejects", "%s on %x (%s), decoded into receivers that held an earlier message: value-based path accepts (%s) but streaming rejects: %s", e.Name, clip(b, 96), desc, rvb, rst)
					return
				}
			}
		}
		switch {
		case vb.ok && st.ok:
			res.Count("c04.both-accept", 1)
			if !sameGen(vb, st) {
				res.Failf("C04/values-differ", "%s on %x (%s): value-based %s, streaming %s%s", e.Name, clip(b, 96), desc, vb, st, goDiff(vb, st))
			}
		case vb.ok && !st.ok:
			res.Failf("C04/stream-rejects", "%s on %x (%s): value-based path accepts (%s) but streaming rejects: %s", e.Name, clip(b, 96), desc, vb, st)
		case !vb.ok && st.ok:
			res.Count("c04.only-stream-accepts", 1)
		default:
			res.Count("c04.both-reject", 1)
		}
		D := 4
		if o.Tier == "thorough" {
			D = 8
		}
		for d := 0; d < D; d++ {
			faulted := d%2 == 1 && st.ok
			plan := simio.GenPlan(len(b), faulted)
			got := streaming(e, b, plan)
			logf("streaming over %s: %s", plan, got)
			h.Str(got.String())
			if got.panic != "" {
				if strings.Contains(got.panic, "ErrBudget") || strings.Contains(got.panic, "{") && strings.Contains(got.panic, "Calls") {
					res.Failf("C04/budget", "%s: streaming over %s exceeded its reader-call budget", e.Name, plan)
				} else {
					res.Failf("C04/panic", "%s: streaming over %s panicked on %x: %s", e.Name, plan, clip(b, 96), got.panic)
				}
				return
			}
			cut := int64(-1)
			if plan.TruncAt >= 0 {
				cut = int64(plan.TruncAt)
			}
			if plan.ErrAt >= 0 {
				cut = int64(plan.ErrAt)
			}
			if cut >= 0 && cut < st.used {
				if got.ok {
					res.Failf("C04/fault-accepted", "%s: streaming over %s succeeded although the stream was cut at %d inside the %d-byte struct", e.Name, plan, cut, st.used)
				}
				res.Count("c04.fault-inside-struct", 1)
				continue
			}
			if got.ok != st.ok {
				res.Failf("C04/segmentation-dependent", "%s on %x: streaming over %s -> %s but with full delivery -> %s", e.Name, clip(b, 96), plan, got, st)
			} else if got.ok && !sameGen(got, st) {
				res.Failf("C04/segmentation-dependent", "%s: streaming over %s decoded %s, full delivery %s", e.Name, plan, got, st)
			}
		}
	})
	res.FromSim(s)
	for _, c := range res.Choices {
		h.Int(int64(c))
	}
	res.Hash = h.Sum()
	k := world.NewHasher()
	for _, c := range res.Choices {
		k.Int(int64(c))
	}
	res.Key = k.Sum()
	if o.Trace {
		res.Trace = append(lines, world.TraceOf(s, "")...)
		res.Sample = lines
	}
	return res
}

func c04Serialize(res *world.Result, e registry.Entry, logf func(string, ...interface{}), h *world.Hasher) {
	x := e.New()
	valid := false
	if simrt.Flip("ser.raw-fill", 0.3) {
		fill(reflect.ValueOf(x).Elem(), 0)
	} else if vx, _, ok := validValue(e); ok {
		x = vx
		valid = true
	} else {
		fill(reflect.ValueOf(x).Elem(), 0)
	}
	damaged := false
	if valid && simrt.Flip("ser.damage", 0.5) {
		damaged = damage(reflect.ValueOf(x), 0)
	}
	res.Nontrivial = true
	logf("type %s, Go value (valid=%v damaged=%v): %s", e.Name, valid, damaged, first(safeString(x), 300))
	// E1: streaming serializer
	w1 := simio.NewWriter(-1)
	e1 := guardGen(func() genOutcome {
		sw := tbinary.Default.Writer(w1)
		defer sw.Close()
		if err := x.Encode(sw); err != nil {
			return genOutcome{err: err.Error()}
		}
		return genOutcome{ok: true}
	})
	// E2: value-based serializer
	w2 := simio.NewWriter(-1)
	e2 := guardGen(func() genOutcome {
		w, err := x.ToWire()
		if err != nil {
			return genOutcome{err: err.Error()}
		}
		if err := tbinary.Default.Encode(w, w2); err != nil {
			return genOutcome{err: "encode: " + err.Error()}
		}
		return genOutcome{ok: true}
	})
	logf("streaming Encode: %s (%d bytes); ToWire+Encode: %s (%d bytes)", e1, len(w1.Buf), e2, len(w2.Buf))
	h.Str(e1.String())
	h.Str(e2.String())
	if e1.panic != "" || e2.panic != "" {
		res.Failf("C04/serialize-panic", "%s: serializing %s panicked: streaming=%s value-based=%s", e.Name, first(safeString(x), 200), e1, e2)
		return
	}
	if e1.ok != e2.ok {
		res.Failf("C04/serializers-disagree", "%s: value %s (damaged=%v): streaming Encode -> %s, ToWire+Encode -> %s", e.Name, first(safeString(x), 200), damaged, e1, e2)
		return
	}
	if !e1.ok {
		res.Count("c04.ser.both-fail", 1)
		return
	}
	res.Count("c04.ser.both-succeed", 1)
	v1, n1, err1 := ref.Decode(w1.Buf, ref.TStruct)
	v2, n2, err2 := ref.Decode(w2.Buf, ref.TStruct)
	if err1 != nil || n1 != len(w1.Buf) {
		res.Failf("C04/stream-encoding-invalid", "%s: streaming Encode produced bytes that do not decode as one struct (%v): %x", e.Name, err1, clip(w1.Buf, 96))
		return
	}
	if err2 != nil || n2 != len(w2.Buf) {
		res.Failf("C04/value-encoding-invalid", "%s: ToWire+Encode produced bytes that do not decode as one struct (%v): %x", e.Name, err2, clip(w2.Buf, 96))
		return
	}
	if !ref.Equal(v1, v2) {
		res.Failf("C04/encodings-differ", "%s: streaming Encode gives %s, ToWire+Encode gives %s", e.Name, v1, v2)
		return
	}
	// A writer that runs out of room: a serializer that reports success must have written
	// its whole encoding (both fail, or both write everything).
	if simrt.Flip("ser.short-writer", 0.3) && len(w1.Buf) > 0 {
		room := len(w1.Buf) - 1 - ch("ser.short-by", 4)
		if ch("ser.short-anywhere", 3) == 0 {
			room = ch("ser.room", len(w1.Buf))
		}
		if room < 0 {
			room = 0
		}
		once := ch("ser.refused-once", 3) == 1 // the write that does not fit is refused, later ones are taken
		ws := simio.NewWriter(room)
		ws.Once = once
		es := guardGen(func() genOutcome {
			sw := tbinary.Default.Writer(ws)
			defer sw.Close()
			if err := x.Encode(sw); err != nil {
				return genOutcome{err: err.Error()}
			}
			return genOutcome{ok: true}
		})
		wv := simio.NewWriter(room + len(w2.Buf) - len(w1.Buf))
		wv.Once = once
		ev := guardGen(func() genOutcome {
			w, err := x.ToWire()
			if err != nil {
				return genOutcome{err: err.Error()}
			}
			if err := tbinary.Default.Encode(w, wv); err != nil {
				return genOutcome{err: "encode: " + err.Error()}
			}
			return genOutcome{ok: true}
		})
		res.Count("c04.ser.short-writer", 1)
		if es.panic != "" || ev.panic != "" {
			res.Failf("C04/serialize-panic", "%s: serializing into a writer with room for %d of %d bytes panicked: streaming=%s value-based=%s", e.Name, room, len(w1.Buf), es, ev)
			return
		}
		if es.ok || ev.ok {
			res.Failf("C04/short-write-unreported", "%s: a writer with room for %d of %d bytes: streaming Encode -> %s, ToWire+Encode -> %s (an encoding that did not fit was reported as written)", e.Name, room, len(w1.Buf), es, ev)
		}
	}
}

func safeString(x registry.Generated) (s string) {
	defer func() {
		if r := recover(); r != nil {
			s = fmt.Sprintf("<String() panicked: %v>", r)
		}
	}()
	return x.String()
}

var pClamped = simrt.NewProbe("c04.count-clamped")
