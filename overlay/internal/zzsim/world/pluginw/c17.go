package pluginw

import (
	"fmt"
	"path"
	"sort"
	"strings"

	"go.uber.org/thriftrw/internal/zzsim/progen"
	"go.uber.org/thriftrw/internal/zzsim/simrt"
	"go.uber.org/thriftrw/internal/zzsim/world"
)

// genC17 turns a base scenario into a C17 scenario: layouts, failing modules,
// plugin file paths of every shape.
func genC17(sc *Scenario) {
	// layout: explicit roots above / beside the natural one
	if simrt.Flip("c17.layout", 0.5) {
		genLayout(sc)
	} else if simrt.Flip("c17.masked-outsider", 0.12) {
		genMaskedOutsider(sc)
	} else if !sc.ExplicitRoot && simrt.Flip("c17.case-sibling", 0.1) {
		genCaseSibling(sc)
	} else if simrt.Flip("c17.extensionless-twin", 0.05) {
		genExtensionlessTwin(sc)
	} else if simrt.Flip("c17.hyphenated-root", 0.08) {
		// the file named on the command line may carry hyphens (its Go package gets underscores,
		// its directory keeps the hyphens)
		b := sc.Prog.Files[0].Base
		sc.Prog.Files[0].Base = b[:len(b)/2] + "-" + b[len(b)/2:]
		sc.PluginAPI, sc.APICrossParent = false, false // the built-in generator does not take hyphenated modules
	} else if simrt.Flip("c17.odd-root-file", 0.06) {
		switch simrt.Choice("c17.odd-root-file-kind", 2) {
		case 0:
			// --thrift-root names the Thrift file itself: not a directory that holds the file
			sc.ExplicitRoot, sc.RootRel = true, "thrift/"+sc.Prog.Files[0].RelPath()
		case 1:
			// a Thrift file called "...thrift": without its extension its name is ".."
			sc.Prog.Files[0].Base = ".."
			sc.DotDotName = true
		}
	}
	for _, ps := range sc.Plugins {
		ps.ModSuffix = "/" + sc.Prog.Files[0].RelPath()
	}
	if simrt.Flip("c17.output-file", 0.12) {
		sc.OutputFile = outputFileShapes[simrt.ChoiceBias("c17.output-file-shape", len(outputFileShapes), 0.5)]
	}
	// failing module
	if simrt.Flip("c17.fail-module", 0.3) {
		genFailModule(sc)
	}
	genPluginFiles(sc)
	sc.StaleOut = simrt.Flip("c17.stale-output", 0.2)
}

var outputFileShapes = []string{"single.go", "nested/single.go", "../up.go", "../../up2.go", "../../../up3.go", "single.txt", "noext"}

// genLayout picks an explicit thrift root above, at or beside the natural one.
func genLayout(sc *Scenario) {
	p := sc.Prog
	{
		sc.ExplicitRoot = true
		cd := commonDir(p)
		cands := []string{"thrift/" + cd, "thrift", ""} // natural, thrift dir, sandbox root
		if cd == "" {
			cands[0] = "thrift"
		}
		// a root that does not contain every file (verifyAncestry must reject it)
		if d := p.Files[0].Dir; d != "" && d != cd {
			cands = append(cands, "thrift/"+d)
		}
		for _, f := range p.Files[1:] {
			if f.Dir != "" && f.Dir != cd {
				cands = append(cands, "thrift/"+f.Dir)
				break
			}
		}
		sc.RootRel = cands[simrt.Choice("c17.root", len(cands))]
	}
}

// genMaskedOutsider lays the program out under an explicit root that holds every file
// but one, and gives that one the base name of a file inside the root: which files are
// checked against the root must not depend on what they are called.
func genMaskedOutsider(sc *Scenario) {
	p := sc.Prog
	nf := len(p.Files)
	if nf < 2 {
		return
	}
	includes := func(i, j int) bool {
		for _, k := range p.Files[i].Includes {
			if k == j {
				return true
			}
		}
		return false
	}
	type pair struct{ out, in int }
	var pairs []pair
	for j := 0; j < nf; j++ {
		for k := 0; k < nf; k++ {
			// the same name twice among the includes of one file is not legal Thrift
			ok := j != k && !includes(j, k) && !includes(k, j)
			for i := 0; i < nf && ok; i++ {
				ok = !(includes(i, j) && includes(i, k))
			}
			if ok {
				pairs = append(pairs, pair{j, k})
			}
		}
	}
	if len(pairs) == 0 {
		return
	}
	pr := pairs[simrt.Choice("c17.masked-pair", len(pairs))]
	for i, f := range p.Files {
		f.Dir = []string{"a", "a/b", "a/c"}[simrt.Choice("c17.inside-dir", 3)]
		if i == pr.out {
			f.Dir = []string{"c", "", "ab", "c/a"}[simrt.Choice("c17.outside-dir", 4)]
		}
	}
	p.Files[pr.out].Base = p.Files[pr.in].Base
	sc.ExplicitRoot, sc.RootRel = true, "thrift/a"
}

// genExtensionlessTwin gives one file the location and base name of another, minus the
// ".thrift": two Thrift files (shared.thrift and shared) that map to one Go package and one
// output file - a conflict between two of the core generator's own modules.
func genExtensionlessTwin(sc *Scenario) {
	p := sc.Prog
	nf := len(p.Files)
	includes := func(i, j int) bool {
		for _, k := range p.Files[i].Includes {
			if k == j {
				return true
			}
		}
		return false
	}
	type pair struct{ a, b int }
	var pairs []pair
	for j := 0; j < nf; j++ {
		for k := 1; k < nf; k++ { // the twin is never the file named on the command line
			ok := j != k && !includes(j, k) && !includes(k, j)
			for i := 0; i < nf && ok; i++ {
				ok = !(includes(i, j) && includes(i, k))
			}
			if ok {
				pairs = append(pairs, pair{j, k})
			}
		}
	}
	if len(pairs) == 0 {
		return
	}
	pr := pairs[simrt.Choice("c17.twin-pair", len(pairs))]
	p.Files[pr.b].Dir, p.Files[pr.b].Base, p.Files[pr.b].NoExt = p.Files[pr.a].Dir, p.Files[pr.a].Base, true
	sc.Twin = [2]int{pr.a + 1, pr.b + 1}
}

// genCaseSibling moves some files of a program with a derived root into a directory
// that differs from a sibling only in the case of its name.
func genCaseSibling(sc *Scenario) {
	p := sc.Prog
	moved, stayed := false, false
	for i, f := range p.Files {
		if f.Dir == "" {
			f.Dir = []string{"a", "a/b"}[simrt.Choice("c17.case-dir", 2)]
		}
		if simrt.Flip("c17.case-move", 0.5) || (i == len(p.Files)-1 && !moved && stayed) {
			f.Dir = strings.ToUpper(f.Dir[:1]) + f.Dir[1:]
			moved = true
		} else {
			stayed = true
		}
	}
}

// genFailModule plants a definition that fails compilation or generation.
func genFailModule(sc *Scenario) {
	p := sc.Prog
	{
		k := simrt.Choice("c17.fail-index", len(p.Files))
		kind := []string{"gen-reserved", "gen-goname", "compile"}[simrt.Choice("c17.fail-kind", 3)]
		sc.FailModule, sc.FailKind = k, kind
		f := p.Files[k]
		d := &progen.Def{Kind: progen.KStruct, Name: fmt.Sprintf("Broken%d", k), File: k}
		switch kind {
		case "gen-reserved":
			d.Fields = []*progen.FieldDef{{ID: 1, Name: "to_wire", Req: progen.ReqOptional, Type: &progen.TypeRef{Base: "i32"}}}
		case "gen-goname":
			d.Fields = []*progen.FieldDef{{ID: 1, Name: "fine", Req: progen.ReqOptional, Type: &progen.TypeRef{Base: "i32"}, Annot: `(go.name = "not_exported")`}}
		case "compile":
			d.Fields = []*progen.FieldDef{{ID: 1, Name: "dangling", Req: progen.ReqOptional, Type: &progen.TypeRef{Ref: &progen.Ref{File: k, Name: "NoSuchType"}}}}
		}
		pos := simrt.Choice("c17.fail-pos", len(f.Defs)+1)
		f.Defs = append(f.Defs[:pos], append([]*progen.Def{d}, f.Defs[pos:]...)...)
	}
}

func isCore(core []string, pth string) bool {
	for _, c := range core {
		if cleanRel(c) == cleanRel(pth) {
			return true
		}
	}
	return false
}

// genPluginFiles draws the paths the plugins answer with.
func genPluginFiles(sc *Scenario) {
	core := append(corePaths(sc), apiPaths(sc)...)
	var taken []string // paths of earlier plugins
	contentOf := map[string]string{}
	for _, ps := range sc.Plugins {
		n := simrt.Choice("c17.files", 4)
		ps.Files = nil
		mine := map[string]bool{}
		for k := 0; k < n; k++ {
			pth := genPath(ps.Name, k, core, taken)
			dyn := false
			if len(core) > 0 && simrt.Flip("c17.path-from-module-directory", 0.2) {
				// where a well-behaved generator puts its files: next to the root module's own
				dyn = true
				pth = path.Dir(core[0]) + "/" + fmt.Sprintf("gen_%s_%d.go", ps.Name, k)
			}
			if mine[cleanRel(pth)] {
				continue // one plugin naming one file twice is that plugin's own business
			}
			mine[cleanRel(pth)] = true
			content := fmt.Sprintf("// %s wrote %q\npackage x\n", ps.ID(), pth)
			if other, ok := contentOf[cleanRel(pth)]; ok && simrt.Flip("c17.same-content", 0.4) {
				content = other // two sources, one path, identical bytes (a doc.go, an empty file): still two sources
			} else if (ok || isCore(core, pth)) && simrt.Flip("c17.empty-content", 0.3) {
				content = "" // a second source for a path, with nothing in it: a second source all the same
			}
			ps.Files = append(ps.Files, GenFile{Path: pth, Content: content, Dyn: dyn, Base: path.Base(pth)})
		}
		for _, f := range ps.Files {
			taken = append(taken, f.Path)
			contentOf[cleanRel(f.Path)] = f.Content
		}
	}
}

var shapeNames = []string{"relative", "nested", "absolute", "dotdot-component", "dotdot-in-name", "dot-component", "repeated-separator",
	"equals-core", "equals-other-plugin", "equals-core-after-clean", "equals-other-after-clean", "trailing-dotdot"}

func genPath(plugin string, k int, core, taken []string) string {
	shape := simrt.ChoiceBias("c17.shape", len(shapeNames), 0.35)
	base := fmt.Sprintf("%s_%d.go", plugin, k)
	pShape[shape].Hit()
	switch shapeNames[shape] {
	case "nested":
		return "deep/er/" + base
	case "absolute":
		return "/abs/" + base
	case "dotdot-component":
		// relative, absolute (cleaning an absolute path swallows the leading ".."), deeper
		return []string{"../canary/", "/../canary/", "/../../canary/", "/x/../../canary/"}[simrt.Choice("c17.dotdot-spelling", 4)] + base
	case "dotdot-in-name":
		return "odd..name_" + base
	case "dot-component":
		return "./dot/./" + base
	case "repeated-separator":
		return "rep//eat///" + base
	case "equals-core":
		if len(core) > 0 {
			return core[simrt.Choice("c17.core-pick", len(core))]
		}
	case "equals-other-plugin":
		if len(taken) > 0 {
			return taken[simrt.Choice("c17.other-pick", len(taken))]
		}
	case "equals-core-after-clean":
		if len(core) > 0 {
			return unclean(core[simrt.Choice("c17.core-pick", len(core))])
		}
	case "equals-other-after-clean":
		if len(taken) > 0 {
			return unclean(taken[simrt.Choice("c17.other-pick", len(taken))])
		}
	case "trailing-dotdot":
		return "sub/../../" + base
	}
	return "plug_" + plugin + "/" + base
}

// unclean returns a different spelling of the same file.
func unclean(p string) string {
	switch simrt.Choice("c17.unclean", 4) {
	case 3:
		if !strings.HasPrefix(p, "/") {
			return "/" + p // absolute spelling: joined with the output directory it is the same file
		}
		return "./" + p
	case 0:
		return "./" + p
	case 1:
		if i := strings.Index(p, "/"); i > 0 {
			return p[:i] + "//" + p[i+1:]
		}
		return "./" + p
	default:
		if i := strings.LastIndex(p, "/"); i > 0 {
			return p[:i] + "/./" + p[i+1:]
		}
		return "./" + p
	}
}

// cleanRel normalises a generated-file path the way joining it to the output
// directory does.
func cleanRel(p string) string {
	return strings.TrimPrefix(path.Clean("/"+p), "/")
}

// thriftRootRel is the thrift root relative to the sandbox.
func thriftRootRel(sc *Scenario) string {
	if sc.ExplicitRoot {
		return sc.RootRel
	}
	if cd := commonDir(sc.Prog); cd != "" {
		return "thrift/" + cd
	}
	return "thrift"
}

// under reports whether the sandbox-relative file path lies under dir.
func under(file, dir string) bool {
	if dir == "" {
		return true
	}
	return strings.HasPrefix(file, dir+"/")
}

// ancestryOK: every file of the program lies under the thrift root.
func ancestryOK(sc *Scenario) bool {
	root := thriftRootRel(sc)
	for _, f := range sc.Prog.Files {
		if !under("thrift/"+f.RelPath(), root) {
			return false
		}
	}
	return true
}

// corePaths are the files the core generator writes (relative to out/),
// determined by each Thrift file's location relative to the thrift root.
func corePaths(sc *Scenario) []string {
	root := thriftRootRel(sc)
	var out []string
	for i, f := range sc.Prog.Files {
		if i > 0 && (sc.NoRecurse || sc.OutputFile != "") {
			continue
		}
		full := "thrift/" + f.RelPath()
		if !under(full, root) {
			continue
		}
		rel := strings.TrimSuffix(full, ".thrift")
		if root != "" {
			rel = strings.TrimPrefix(rel, root+"/")
		}
		name := f.Base + ".go"
		if sc.OutputFile != "" {
			name = sc.OutputFile
		}
		out = append(out, path.Clean(rel+"/"+name))
	}
	return out
}

// apiPaths are the files the built-in generator behind --generate-plugin-api adds:
// interface, client and handler for every service of every generated module.
func apiPaths(sc *Scenario) []string {
	if !sc.PluginAPI {
		return nil
	}
	root := thriftRootRel(sc)
	var out []string
	for i, f := range sc.Prog.Files {
		if i > 0 && (sc.NoRecurse || sc.OutputFile != "") {
			continue
		}
		full := "thrift/" + f.RelPath()
		if !under(full, root) {
			continue
		}
		rel := strings.TrimSuffix(full, ".thrift")
		if root != "" {
			rel = strings.TrimPrefix(rel, root+"/")
		}
		for _, d := range f.Defs {
			if d.Kind == progen.KService && !d.Removed {
				for _, suffix := range []string{".go", "_client.go", "_handler.go"} {
					out = append(out, path.Clean(rel+"/"+strings.ToLower(d.Name)+suffix))
				}
			}
		}
	}
	return out
}

// generatingPlugins: plugins that get to answer a generate request when
// nothing fails earlier.
func generatingPlugins(sc *Scenario) []*Script {
	var out []*Script
	for _, ps := range sc.Plugins {
		if ps.handshakeOK() && ps.aliveAfterHandshake() && ps.advertisesSG() {
			out = append(out, ps)
		}
	}
	return out
}

// genReplyDelivered: the plugin's generate reply reaches the host intact.
func genReplyDelivered(ps *Script) bool {
	if ps.Conforming {
		return !ps.GenErr
	}
	return ps.Steps[StepGenerate].Kind.replyGood(StepGenerate)
}

type c17Expect struct {
	preWriteFailure []string // reasons for which the host must fail before writing anything
	conflict        []string
	dotdot          []string
}

// hostFaults lists the reasons, independent of any plugin, for which the host
// must fail without writing anything.
func hostFaults(sc *Scenario) []string {
	var out []string
	if sc.FailModule >= 0 {
		generated := sc.FailModule == 0 || !(sc.NoRecurse || sc.OutputFile != "")
		if sc.FailKind == "compile" || generated {
			out = append(out, fmt.Sprintf("module %d fails (%s)", sc.FailModule, sc.FailKind))
		}
	}
	if !ancestryOK(sc) {
		out = append(out, "a Thrift file lies outside the thrift root")
	}
	if sc.Twin[0] > 0 && !(sc.NoRecurse || sc.OutputFile != "") {
		out = append(out, "two Thrift files map to one package and one output file")
	}
	if strings.Contains(sc.OutputFile, "/") {
		// the single output file goes into the Thrift file's package directory;
		// a value with directories could leave the output directory
		out = append(out, "--output-file names a path, not a file name")
	}
	if sc.OutputFile != "" && !strings.HasSuffix(sc.OutputFile, ".go") {
		out = append(out, "--output-file is not a .go name")
	}
	return out
}

func expectC17(sc *Scenario) c17Expect {
	var e c17Expect
	e.preWriteFailure = append(e.preWriteFailure, hostFaults(sc)...)
	for _, ps := range sc.Plugins {
		switch {
		case ps.StartFail != 0 || ps.ExitAtStart:
			e.preWriteFailure = append(e.preWriteFailure, "plugin "+ps.Name+" does not start / exits at once")
		case !ps.handshakeOK():
			e.preWriteFailure = append(e.preWriteFailure, "plugin "+ps.Name+" fails its handshake")
		case ps.advertisesSG() && (!ps.aliveAfterHandshake() || !genReplyDelivered(ps)):
			e.preWriteFailure = append(e.preWriteFailure, "plugin "+ps.Name+" fails its generate request")
		}
	}
	// paths
	owner := map[string]string{}
	for _, c := range corePaths(sc) {
		owner[cleanRel(c)] = "core"
	}
	for _, c := range apiPaths(sc) {
		owner[cleanRel(c)] = "pluginapigen"
	}
	for _, ps := range generatingPlugins(sc) {
		if !genReplyDelivered(ps) {
			continue
		}
		for _, f := range ps.Files {
			if strings.Contains(f.Path, "..") {
				e.dotdot = append(e.dotdot, fmt.Sprintf("%s: %q", ps.Name, f.Path))
			}
			c := cleanRel(f.Path)
			if o, ok := owner[c]; ok && o != ps.ID() {
				e.conflict = append(e.conflict, fmt.Sprintf("%q from %s and %s", c, o, ps.ID()))
			} else {
				owner[c] = ps.ID()
			}
		}
	}
	sort.Strings(e.conflict)
	return e
}

// checkC17 evaluates confinement, conflict detection and all-or-nothing over
// the sandbox snapshots.
// emptyHash is what world.Snapshot records for a file of zero bytes.
const emptyHash = "e3b0c44298fc1c14"

func checkC17(res *world.Result, s *simrt.Sim, sc *Scenario, logs []*PlugLog, host *hostResult, env *Env, before, after map[string]string) {
	if sc == nil {
		return
	}
	if s.Aborted != "" {
		res.Failf("C17/run-abandoned-"+s.Aborted, "run abandoned (%s) after %d steps", s.Aborted, s.Steps)
		return
	}
	if host.Panic != "" {
		res.Failf("C17/host-panic", "host panicked: %s", first(host.Panic, 600))
		return
	}
	diff := world.DiffSnap(before, after)
	// 1. Confinement
	var outChanged []string
	for _, d := range diff {
		p := d[1:]
		if p == "out" || strings.HasPrefix(p, "out/") {
			outChanged = append(outChanged, d)
			continue
		}
		res.Failf("C17/confinement", "path outside the output directory was touched: %s", d)
	}
	exp := expectC17(sc)
	hostErr := ""
	if host.Err != nil {
		hostErr = first(strings.ReplaceAll(host.Err.Error(), env.Root, "$SB"), 300)
	}
	// 2. Conflicts and '..' must be reported
	if len(exp.preWriteFailure) == 0 {
		if len(exp.conflict) > 0 && host.Err == nil {
			res.Failf("C17/conflict-unreported", "two sources produced the same file but the host succeeded: %s", strings.Join(exp.conflict, "; "))
		}
		if len(exp.dotdot) > 0 && host.Err == nil {
			res.Failf("C17/dotdot-unreported", "a plugin returned a path with '..' but the host succeeded: %s", strings.Join(exp.dotdot, "; "))
		}
	}
	// 3. All or nothing
	reasons := append([]string{}, exp.preWriteFailure...)
	if len(exp.conflict) > 0 {
		reasons = append(reasons, "conflict: "+strings.Join(exp.conflict, "; "))
	}
	if len(exp.dotdot) > 0 {
		reasons = append(reasons, "'..' path: "+strings.Join(exp.dotdot, "; "))
	}
	if len(reasons) > 0 {
		if host.Err == nil && len(exp.preWriteFailure) > 0 {
			res.Failf("C17/failure-unreported", "host succeeded although %s", strings.Join(exp.preWriteFailure, "; "))
		}
		if host.Err != nil && len(outChanged) > 0 {
			res.Failf("C17/all-or-nothing", "host failed (%s; expected because %s) but the output directory changed: %s",
				hostErr, strings.Join(reasons, "; "), strings.Join(outChanged, " "))
		}
	}
	if (sc.APICrossParent || sc.DotDotName) && len(reasons) == 0 && host.Err != nil && len(outChanged) > 0 {
		// whether the built-in generator fails on this program is not for this check to say,
		// but a failed run (no plugin fails only at goodbye here) must leave nothing behind
		late := false
		for _, ps := range sc.Plugins {
			if ps.Fails() {
				late = true
			}
		}
		if !late {
			res.Failf("C17/all-or-nothing", "host failed (%s) but the output directory changed: %s", hostErr, strings.Join(outChanged, " "))
		}
	}
	// A source whose file comes out empty did not produce it: nothing may be written then.
	if host.Err == nil {
		scriptedEmpty := map[string]bool{} // files a scripted plugin was told to leave empty
		for _, ps := range sc.Plugins {
			for _, f := range ps.Files {
				if f.Content == "" {
					scriptedEmpty["out/"+cleanRel(f.Path)] = true
				}
			}
		}
		for _, d := range outChanged {
			if p := d[1:]; d[0] != '-' && strings.HasSuffix(p, ".go") && after[p] == emptyHash && !scriptedEmpty[p] {
				res.Failf("C17/all-or-nothing", "the run succeeded and wrote files although one source produced nothing: %s is empty", p)
			}
		}
	}
	// Success: exactly the union of core and plugin files appears.
	if host.Err == nil && len(reasons) == 0 && !sc.DotDotName {
		want := map[string]bool{}
		for _, c := range corePaths(sc) {
			want["out/"+cleanRel(c)] = true
		}
		for _, c := range apiPaths(sc) {
			want["out/"+cleanRel(c)] = true
		}
		for _, ps := range generatingPlugins(sc) {
			for _, f := range ps.Files {
				want["out/"+cleanRel(f.Path)] = true
			}
		}
		for _, d := range outChanged {
			p := d[1:]
			if after[p] == "dir" {
				continue
			}
			if d[0] == '-' {
				res.Failf("C17/deleted", "a file of the output directory was deleted: %s", p)
			} else if !want[p] {
				res.Failf("C17/unexpected-file", "unexpected file written: %s (expected %v)", p, keysOf(want))
			}
		}
		for w := range want {
			if _, ok := after[w]; !ok {
				res.Failf("C17/missing-file", "expected file %s was not written", w)
			}
		}
		res.Count("c17.success-runs", 1)
	}
	if host.Err != nil && len(reasons) == 0 && !sc.APICrossParent && !sc.DotDotName {
		lateOnly := false // a plugin that fails only at goodbye, after the files were written
		for _, ps := range sc.Plugins {
			if ps.Fails() {
				lateOnly = true
			}
		}
		if !lateOnly {
			// nothing that the property lists as a cause of failure happened: the files belong at
			// their determined paths, and a run that refuses to write them has not put them there
			res.Failf("C17/spurious-failure", "nothing failed (every Thrift file lies under the root, no module or plugin fails, no two sources collide) but the host failed and wrote nothing: %s", hostErr)
		}
	}
	if host.Err != nil {
		res.Count("c17.failed-runs", 1)
		if len(outChanged) == 0 {
			res.Count("c17.failed-runs-out-untouched", 1)
		}
	}
	if len(exp.conflict) > 0 {
		res.Count("c17.conflict-scenarios", 1)
	}
	if len(exp.dotdot) > 0 {
		res.Count("c17.dotdot-scenarios", 1)
	}
	if !ancestryOK(sc) {
		res.Count("c17.outside-root-scenarios", 1)
	}
	if sc.FailModule >= 0 {
		res.Count("c17.fail-module-"+sc.FailKind, 1)
	}
	// Liveness/cleanup problems are C16's business but a leaked process is
	// still worth failing on here.
	for _, t := range s.Tasks() {
		if t.Panic != "" {
			res.Failf("C17/task-panic", "task %s panicked: %s", t.Name, first(t.Panic, 400))
		}
	}
}

func keysOf(m map[string]bool) []string {
	var ks []string
	for k := range m {
		ks = append(ks, k)
	}
	sort.Strings(ks)
	return ks
}

var pShape [12]simrt.Probe

func init() {
	for i, n := range shapeNames {
		pShape[i] = simrt.NewProbe("path-shape." + n)
	}
}
