package pluginw

import (
	"errors"
	"fmt"
	"io"
	"os"
	"path"
	"path/filepath"
	"runtime/debug"
	"sort"
	"strings"
	"syscall"

	"go.uber.org/thriftrw/internal/zzsim/progen"
	"go.uber.org/thriftrw/internal/zzsim/ref"
	"go.uber.org/thriftrw/internal/zzsim/refwire"
	"go.uber.org/thriftrw/internal/zzsim/simrt"
	"go.uber.org/thriftrw/internal/zzsim/world"
	"go.uber.org/thriftrw/plugin"
	"go.uber.org/thriftrw/plugin/api"
)

// HostMain is main.do (set by the test binary's TestMain).
var HostMain func() error

// Scenario is the workload and fault schedule of one run; every field is drawn
// from the run's choice stream before the first task starts.
type Scenario struct {
	Prog         *progen.Program
	ExplicitRoot bool
	NoRecurse    bool
	OutputFile   string
	Plugins      []*Script
	PluginAPI    bool // --generate-plugin-api
	// APICrossParent: --generate-plugin-api on a program with a service whose parent lives in another
	// module, which the built-in generator (today) cannot render: the run may fail or not
	APICrossParent bool
	SymlinkRoot    bool   // the directory holding the Thrift files is reached through a symbolic link
	PkgPrefix      string // --pkg-prefix as written on the command line (not necessarily in canonical form)
	RelPaths       int    // 0: absolute paths on the command line; 1: relative to the sandbox; 2: relative to the directory of the Thrift file
	// C17
	FailModule int    // index of the file that fails (-1: none)
	FailKind   string // "gen-reserved", "gen-goname" or "compile"
	Twin       [2]int // C17: 1-based indices of two files that map to one package (x.thrift and x)
	StaleOut   bool // C17: the package directories below --out hold files of an earlier generation
	// DotDotName: the root Thrift file is called "...thrift" (its module name is ".."): whether
	// such a run fails is not for the check to say, only that nothing leaves the output directory
	DotDotName bool
	Conflict   [2]int // C16: 1-based indices of two plugins that name one file (zero: none)
	RootRel    string // explicit thrift root relative to the sandbox ("" with ExplicitRoot=false: automatic)
	// simulator knobs
	Strat    simrt.Strategy
	SwitchP  float64
	Preempt  bool
	ChunkP0  float64
	FastPath int64
	PipeCap  int
}

func (sc *Scenario) describe() []string {
	var out []string
	out = append(out, fmt.Sprintf("options: explicit-root=%v(%q) no-recurse=%v output-file=%q plugin-api=%v fail-module=%d(%s) thrift-dir-is-a-symlink=%v",
		sc.ExplicitRoot, sc.RootRel, sc.NoRecurse, sc.OutputFile, sc.PluginAPI, sc.FailModule, sc.FailKind, sc.SymlinkRoot))
	out = append(out, fmt.Sprintf("simulator: strategy=%d switchP=%.2f preempt=%v chunkP0=%.2f fastPathFrameSize=%d pipeCapacity=%d", sc.Strat, sc.SwitchP, sc.Preempt, sc.ChunkP0, sc.FastPath, sc.PipeCap))
	for _, p := range sc.Plugins {
		out = append(out, "plugin "+p.String())
		for _, f := range p.Files {
			out = append(out, fmt.Sprintf("   file %q (%d bytes)", f.Path, len(f.Content)))
		}
	}
	for _, l := range strings.Split(sc.Prog.Describe(), "\n") {
		out = append(out, "  | "+l)
	}
	return out
}

var swp = []float64{0.05, 0.2, 0.5}
var chunkp = []float64{1.0, 0.7, 0.2, 0.0}
var fastp = []int64{0, 0, 4, 64, 4096}

// faultActs are the reply actions other than plain ok.
var faultActs = []ActKind{ActOKExtra, ActWrongName, ActWrongVersion, ActMissingRequired, ActEmptyResult, ActException,
	ActUnknownEnvType, ActGarbageFramed, ActGarbageRaw, ActTruncate, ActOversized, ActExitNoReply, ActOKThenExit}

func genSimKnobs(sc *Scenario) {
	sc.Strat = simrt.Strategy(simrt.Choice("sim.strategy", 3))
	sc.SwitchP = swp[simrt.Choice("sim.switchp", len(swp))]
	sc.Preempt = simrt.Choice("sim.preempt", 2) == 1
	sc.ChunkP0 = chunkp[simrt.Choice("sim.chunkp0", len(chunkp))]
	sc.FastPath = fastp[simrt.Choice("sim.fastpath", len(fastp))]
	sc.PipeCap = pipeCaps[simrt.Choice("sim.pipe-capacity", len(pipeCaps))]
}

// pipeCaps: mostly the usual 64 KiB; small capacities make writers block in the middle of a frame.
var pipeCaps = []int{0, 0, 4096, 64, 7}

// genScript draws one plugin script. faultP is the probability of a fault per step.
func genScript(name string, faultP float64, idx int) *Script {
	s := &Script{Name: name}
	s.Conforming = simrt.Flip("plugin.conforming", 0.4)
	if simrt.Flip("plugin.start-fail", faultP/4) {
		s.StartFail = 1 + simrt.Choice("plugin.start-errno", 2)
	}
	s.NoSG = simrt.Flip("plugin.no-sg", 0.15)
	if !s.Conforming {
		s.ExitAtStart = simrt.Flip("plugin.exit-at-start", faultP/4)
		for st := StepHandshake; st < nSteps; st++ {
			if simrt.Flip("plugin.fault", faultP) {
				k := faultActs[simrt.Choice("plugin.fault-kind", len(faultActs))]
				s.Steps[st] = Action{Kind: k, At: simrt.Choice("plugin.trunc-at", 512), N: simrt.Choice("plugin.garbage", 4096),
					Trail: []int{0, 0, 100, 5000, 70000}[simrt.Choice("plugin.trail", 5)]}
			}
		}
		s.ByteWrites = simrt.Flip("plugin.byte-writes", 0.2)
	} else {
		s.GenErr = simrt.Flip("plugin.gen-err", faultP/2)
		s.Channel = simrt.ChoiceBias("plugin.channel", 4, 0.5)
	}
	s.Helper = simrt.Flip("plugin.leaves-helper-behind", 0.05)
	if simrt.Flip("plugin.exit-status", faultP/4) {
		// 1..3, or -1: killed by a signal after an otherwise flawless conversation
		s.ExitStatus = []int{1, 2, 3, -1}[simrt.Choice("plugin.exit-code", 4)]
	}
	nf := simrt.Choice("plugin.files", 3)
	for k := 0; k < nf; k++ {
		s.Files = append(s.Files, GenFile{Path: fmt.Sprintf("plug_%s/f%d.go", name, k), Content: fmt.Sprintf("// %s file %d\npackage plug\n", name, k)})
	}
	return s
}

// floorCell pins a single scripted plugin with one action at one step.
// Cells: step (3) x action (nActs) x offset bucket.
func floorScenario(cell int) *Scenario {
	sc := &Scenario{FailModule: -1}
	solo := soloCells()
	peer := 0 // 0 = alone, 1 = next to a well-behaved scripted plugin, 2 = next to a real plugin.Main
	if cell >= solo {
		// peer cells: every step x every non-truncate action, whole writes
		c := cell - solo
		per := int(nSteps) * (int(nActs) - 1)
		peer = 1 + c/per%2
		c %= per
		cell = c/(int(nActs)-1)*floorPerStep + c%(int(nActs)-1)
	}
	st := Step(cell / floorPerStep % int(nSteps))
	r := cell % floorPerStep
	act := Action{}
	if r < int(nActs)-1 {
		k := ActKind(r)
		if k >= ActTruncate {
			k++
		}
		act.Kind = k
		act.N = 1 + cell
	} else {
		act.Kind = ActTruncate
		act.At = r - (int(nActs) - 1)
	}
	s := &Script{Name: "plgalpha"}
	s.Steps[st] = act
	s.ByteWrites = cell/(floorPerStep*int(nSteps))%2 == 1
	s.Files = []GenFile{{Path: "plug_plgalpha/f0.go", Content: "package plug\n"}}
	sc.Plugins = []*Script{s}
	switch peer {
	case 1:
		sc.Plugins = append(sc.Plugins, &Script{Name: "plgbeta", Files: []GenFile{{Path: "plug_plgbeta/f0.go", Content: "package plug\n"}}})
	case 2:
		sc.Plugins = append(sc.Plugins, &Script{Name: "plgbeta", Conforming: true, Files: []GenFile{{Path: "plug_plgbeta/f0.go", Content: "package plug\n"}}})
	}
	return sc
}

const floorOffsets = 160

var floorPerStep = (int(nActs) - 1) + floorOffsets // every non-truncate action once + truncation at offsets

func soloCells() int { return floorPerStep * int(nSteps) * 2 }

// FloorCells is the number of cells of the systematic floor: one plugin alone
// (every step x every action, truncation at every offset, whole and 1-byte
// writes) plus the same non-truncate cells next to a well-behaved scripted peer
// and next to a real plugin.Main peer (whose goodbye and reaping must not depend
// on what happens to the faulty one).
func FloorCells() int { return soloCells() + 2*int(nSteps)*(int(nActs)-1) }

func genScenario(o world.Opts) *Scenario {
	want := 0 // 0 = not a floor run (cell numbers are stored +1)
	if o.Cell >= 0 {
		want = o.Cell + 1
	}
	cell := simrt.Pin("floor.cell", 1<<20, want)
	if cell > 0 {
		sc := floorScenario(cell - 1)
		sc.Prog = progen.Gen(progen.Options{MaxFiles: 1, MaxDefs: 2, WantService: true})
		genSimKnobs(sc)
		return sc
	}
	sc := &Scenario{FailModule: -1}
	sc.Prog = progen.Gen(progen.Options{MaxFiles: 3, MaxDefs: 4, WantService: true, Exceptions: true, Unions: true})
	sc.ExplicitRoot = simrt.Flip("opt.explicit-root", 0.3)
	if sc.ExplicitRoot {
		sc.RootRel = "thrift"
		if cd := commonDir(sc.Prog); cd != "" {
			sc.RootRel = "thrift/" + cd
		}
	}
	sc.NoRecurse = simrt.Flip("opt.no-recurse", 0.15)
	sc.SymlinkRoot = simrt.Flip("layout.symlinked-thrift-dir", 0.1)
	sc.PkgPrefix = []string{"example.com/gen", "example.com/gen", "example.com/gen/", "./example.com/gen", "example.com//gen"}[simrt.Choice("opt.pkg-prefix", 5)]
	if simrt.Flip("layout.relative-paths", 0.2) {
		sc.RelPaths = 1 + simrt.Choice("layout.relative-to", 2)
		if sc.SymlinkRoot {
			// a working directory below the link would be the physical one (os.Getwd): relative
			// paths would then name the files by another spelling than the expectation assumes
			sc.RelPaths = 1
		}
	}
	if simrt.Flip("opt.generate-plugin-api", 0.08) {
		// the built-in generator behind --generate-plugin-api is written for plugin/api.thrift;
		// its client template cannot render a service whose parent lives in another module
		// (observed: `wrong type for value; expected string; got *api.Module`), which is
		// outside the listed properties - such programs run without the flag
		sc.PluginAPI = true
		for _, f := range sc.Prog.Files {
			for _, d := range f.Defs {
				if d.Kind == progen.KService && d.Parent != nil && d.Parent.File != d.File {
					// C17 keeps the flag and demands only what holds whether or not the
					// built-in generator can render the program (see checkC17)
					sc.APICrossParent = true
					if o.Prop != "C17" {
						sc.PluginAPI = false
					}
				}
			}
		}
		if !sc.PluginAPI {
			sc.APICrossParent = false
		}
	}
	np := simrt.ChoiceBias("plugins.n", 4, 0.1)
	faultP := []float64{0, 0.08, 0.25}[simrt.Choice("plugins.fault-rate", 3)]
	for i := 0; i < np; i++ {
		// plugin names are file-name material: now and then one with characters that mean
		// something to fmt, to a shell or to a path
		name := []string{"plgalpha", "plgbeta", "plggamma"}[i]
		if simrt.Flip("plugin.odd-name", 0.15) {
			name = []string{"plg%sx", "50%off", "plg.v2", "plg_%d%v", "plg+x"}[simrt.Choice("plugin.odd-name-pick", 5)] + fmt.Sprint(i)
		}
		sc.Plugins = append(sc.Plugins, genScript(name, faultP, i))
		sc.Plugins[i].ModSuffix = "/" + sc.Prog.Files[0].RelPath() // genC17 may move the file and sets this again
	}
	if o.Prop != "C17" && np >= 2 && simrt.Flip("c16.case-twin-files", 0.1) {
		// two plugins answer with files whose names differ only in letter case: two files
		sc.Plugins[0].Files = append(sc.Plugins[0].Files, GenFile{Path: "plug_case/Client.go", Content: "package plug // upper\n"})
		sc.Plugins[1].Files = append(sc.Plugins[1].Files, GenFile{Path: "plug_case/client.go", Content: "package plug // lower\n"})
	}
	if o.Prop == "C17" {
		if np >= 2 && simrt.Flip("c17.same-plugin-twice", 0.15) {
			// `-p "gen --flavor=a" -p "gen --flavor=b"`: two processes of one plugin are two sources
			a := simrt.Choice("c17.twice-of", np-1)
			b := a + 1 + simrt.Choice("c17.twice-is", np-1-a)
			sc.Plugins[b].Name = sc.Plugins[a].Name
			sc.Plugins[b].Inst = b
			sc.Plugins[b].StartFail = sc.Plugins[a].StartFail // one executable: it exists for both or for neither
		}
		genC17(sc)
	} else if simrt.Flip("c16.host-fault", 0.2) {
		// the host itself has a reason to fail, next to whatever the plugins do: every
		// plugin it has started by then must still be told goodbye and reaped
		switch simrt.Choice("c16.host-fault-kind", 5) {
		case 4:
			// one plugin answers with one file under two spellings: its own answer collides with itself
			if np >= 1 {
				a := simrt.Choice("c16.self-conflict", np)
				sc.Plugins[a].Files = append(sc.Plugins[a].Files,
					GenFile{Path: "plug_twice/extra.go", Content: "package plug\n"},
					GenFile{Path: []string{"./plug_twice/extra.go", "plug_twice//extra.go", "/plug_twice/extra.go"}[simrt.Choice("c16.self-conflict-spelling", 3)], Content: "package plug // again\n"})
				sc.Conflict = [2]int{a + 1, a + 1}
			}
		case 3:
			// two plugins answer with one file: the host refuses the second answer while the
			// others are still being collected - and must still end every plugin it started
			if np >= 2 {
				a := simrt.Choice("c16.conflict-a", np-1)
				b := a + 1 + simrt.Choice("c16.conflict-b", np-1-a)
				shared := GenFile{Path: "plug_shared/same.go", Content: "package plug\n"}
				sc.Plugins[a].Files = append(sc.Plugins[a].Files, shared)
				// the second one may spell the path another way (all of these are one file below --out)
				shared.Path = []string{"plug_shared/same.go", "./plug_shared/same.go", "/plug_shared/same.go", "plug_shared//same.go", "plug_shared/./same.go"}[simrt.ChoiceBias("c16.conflict-spelling", 5, 0.4)]
				sc.Plugins[b].Files = append([]GenFile{shared}, sc.Plugins[b].Files...)
				sc.Conflict = [2]int{a + 1, b + 1}
			}
		case 0:
			genFailModule(sc)
		case 1:
			sc.OutputFile = outputFileShapes[simrt.Choice("c16.output-file-shape", len(outputFileShapes))]
		case 2:
			genLayout(sc)
		}
	}
	genSimKnobs(sc)
	return sc
}

// Env is the sandbox of a run.
type Env struct {
	Root   string // sandbox root
	Thrift string
	Out    string
	Canary string
}

func makeSandbox(o world.Opts) (*Env, error) {
	base := o.TmpDir
	if base == "" {
		base = os.TempDir()
	}
	root := filepath.Join(base, fmt.Sprintf("w%d", o.Worker), "sb")
	os.RemoveAll(root)
	e := &Env{Root: root, Thrift: filepath.Join(root, "thrift"), Out: filepath.Join(root, "out"), Canary: filepath.Join(root, "canary")}
	for _, d := range []string{e.Thrift, filepath.Join(e.Out, "sub"), e.Canary} {
		if err := os.MkdirAll(d, 0755); err != nil {
			return nil, err
		}
	}
	os.WriteFile(filepath.Join(e.Out, "keep.txt"), []byte("sentinel\n"), 0644)
	os.WriteFile(filepath.Join(e.Out, "sub", "old.go"), []byte("package old\n"), 0644)
	os.WriteFile(filepath.Join(e.Canary, "c.txt"), []byte("canary\n"), 0644)
	return e, nil
}

func writeProgram(e *Env, p *progen.Program) error {
	for i, f := range p.Files {
		path := filepath.Join(e.Thrift, filepath.FromSlash(f.RelPath()))
		if err := os.MkdirAll(filepath.Dir(path), 0755); err != nil {
			return err
		}
		if err := os.WriteFile(path, []byte(p.Render(i)), 0644); err != nil {
			return err
		}
	}
	return nil
}

// commonDir is the deepest common ancestor directory (relative to the thrift
// dir) of the program's files — what the CLI picks as thrift root by default.
func commonDir(p *progen.Program) string {
	var parts []string
	first := true
	for _, f := range p.Files {
		var d []string
		if f.Dir != "" {
			d = strings.Split(f.Dir, "/")
		}
		if first {
			parts, first = d, false
			continue
		}
		i := 0
		for i < len(parts) && i < len(d) && parts[i] == d[i] {
			i++
		}
		parts = parts[:i]
	}
	return strings.Join(parts, "/")
}

type hostResult struct {
	Returned bool
	Err      error
	Panic    string
	AtStep   int64
}

// RunOne executes one simulated run of the plugin world.
func RunOne(cfg simrt.Config, o world.Opts) *world.Result {
	res := &world.Result{}
	cfg.KeepEvents = true
	if o.Trace {
		cfg.KeepLabels = true
	}
	s := simrt.New(cfg)
	env, err := makeSandbox(o)
	if err != nil {
		panic(err)
	}
	var sc *Scenario
	var logs []*PlugLog
	var host hostResult
	var before map[string]string

	var conformDesc []string
	isConform := false
	s.Run("host", func() {
		if o.Prop == "C16" && o.Cell < 0 {
			k := 0
			if o.Kind == "conform" {
				k = simrt.Pin("c16.kind", 8, 7)
			} else {
				k = simrt.Choice("c16.kind", 8)
			}
			if k == 7 {
				isConform = true
				runConform(res, s, o, &conformDesc)
				return
			}
		} else if o.Prop == "C16" {
			simrt.Pin("c16.kind", 8, 0)
		}
		sc = genScenario(o)
		s.SetStrategy(sc.Strat, sc.SwitchP, 400)
		s.Preempt = sc.Preempt
		s.ChunkP0 = sc.ChunkP0
		s.PipeCap = sc.PipeCap
		if sc.FastPath > 0 {
			simrt.SetKnob("frame.fastPathFrameSize", sc.FastPath)
		}
		if sc.SymlinkRoot {
			// sb/thrift -> sb/thrift-real: every path the host is given goes through the link
			os.RemoveAll(env.Thrift)
			if err := os.MkdirAll(env.Thrift+"-real", 0755); err != nil {
				panic(err)
			}
			if err := os.Symlink("thrift-real", env.Thrift); err != nil {
				panic(err)
			}
		}
		if err := writeProgram(env, sc.Prog); err != nil {
			panic(err)
		}
		if sc.StaleOut {
			// the output directory was generated into before, by an older version of the tool:
			// every package directory holds files of that time (whatever happens to them in a run
			// that succeeds, a run that fails leaves them alone)
			for _, c := range corePaths(sc) {
				dir := filepath.Join(env.Out, filepath.FromSlash(path.Dir(cleanRel(c))))
				if strings.HasPrefix(dir, env.Out) && os.MkdirAll(dir, 0755) == nil {
					os.WriteFile(filepath.Join(dir, "versioncheck.go"), []byte("package stale // written by an older version\n"), 0644)
					os.WriteFile(filepath.Join(dir, "types_old.go"), []byte("package stale\n"), 0644)
				}
			}
		}
		before = world.Snapshot(env.Root)
		mains := map[string]map[int]func(p *simrt.Process) int{} // name -> instance -> main
		for _, ps := range sc.Plugins {
			ps := ps
			log := &PlugLog{Script: ps}
			logs = append(logs, log)
			var main func(p *simrt.Process) int
			if ps.Conforming {
				main = conformingMain(ps, log)
			} else {
				main = scriptedMain(ps, log)
			}
			if mains[ps.Name] != nil {
				mains[ps.Name][ps.Inst] = main // a further instance of an executable already registered
				continue
			}
			byInst := map[int]func(p *simrt.Process) int{ps.Inst: main}
			mains[ps.Name] = byInst
			entry := simrt.ExecEntry{Name: "thriftrw-plugin-" + ps.Name}
			switch ps.StartFail {
			case 1:
				entry.StartErr = syscall.ENOENT
			case 2:
				entry.StartErr = syscall.EAGAIN
			}
			entry.Main = func(p *simrt.Process) int {
				for _, ps2 := range sc.Plugins {
					if ps2.Name == ps.Name && ps2.Helper {
						p.Helper = true
					}
				}
				inst := 0
				for _, a := range p.Args {
					fmt.Sscanf(a, "--instance=%d", &inst)
				}
				if m := byInst[inst]; m != nil {
					return m(p)
				}
				return 127
			}
			s.RegisterExec(entry)
		}
		// paths on the command line: absolute, or relative to the directory the host is started in
		inFile := filepath.Join(env.Thrift, filepath.FromSlash(sc.Prog.Files[0].RelPath()))
		cwd := ""
		switch sc.RelPaths {
		case 1:
			cwd = env.Root
		case 2:
			cwd = filepath.Dir(inFile)
		}
		arg := func(p string) string {
			if cwd == "" {
				return p
			}
			r, err := filepath.Rel(cwd, p)
			if err != nil {
				return p
			}
			return r
		}
		if cwd != "" {
			saved, _ := os.Getwd()
			if err := os.Chdir(cwd); err != nil {
				panic(err)
			}
			defer os.Chdir(saved)
		}
		prefix := sc.PkgPrefix
		if prefix == "" {
			prefix = "example.com/gen"
		}
		args := []string{"thriftrw", "--out", arg(env.Out), "--pkg-prefix", prefix}
		if sc.ExplicitRoot {
			args = append(args, "--thrift-root", arg(filepath.Join(env.Root, filepath.FromSlash(sc.RootRel))))
		}
		if sc.NoRecurse {
			args = append(args, "--no-recurse")
		}
		if sc.OutputFile != "" {
			args = append(args, "--output-file", sc.OutputFile)
		}
		for _, ps := range sc.Plugins {
			if ps.Inst > 0 {
				args = append(args, "-p", fmt.Sprintf("%s --instance=%d", ps.Name, ps.Inst))
			} else {
				args = append(args, "-p", ps.Name)
			}
		}
		if sc.PluginAPI {
			args = append(args, "--generate-plugin-api")
		}
		args = append(args, arg(inFile))
		os.Args = args
		simrt.Emit("host-start", strings.Join(args[1:], " "), 0, "")
		func() {
			defer func() {
				if r := recover(); r != nil {
					host.Panic = fmt.Sprintf("%v\n%s", r, debug.Stack())
				}
			}()
			host.Err = HostMain()
			host.Returned = true
		}()
		host.AtStep = s.Steps
		e := ""
		if host.Err != nil {
			e = host.Err.Error()
		}
		simrt.Emit("host-return", "", 0, e)
	})

	res.FromSim(s)
	if isConform {
		if s.Aborted != "" {
			res.Failf("C16/liveness-"+s.Aborted, "conforming-plugin run abandoned (%s) after %d steps", s.Aborted, s.Steps)
		}
		for _, t := range s.Tasks() {
			if t.Panic != "" {
				res.Failf("C16/task-panic", "task %s panicked: %s", t.Name, first(t.Panic, 600))
			}
		}
		h := world.NewHasher()
		world.EventsHash(h, s, env.Root)
		for _, f := range res.Failures {
			h.Str(f.Check)
		}
		res.Hash = h.Sum()
		k := world.NewHasher()
		for _, c := range res.Choices {
			k.Int(int64(c))
		}
		res.Key = k.Sum()
		if o.Trace {
			res.Trace = append(conformDesc, world.TraceOf(s, env.Root)...)
			res.Sample = map[string]interface{}{"scenario": conformDesc, "steps": s.Steps}
		}
		return res
	}
	after := world.Snapshot(env.Root)
	if o.Prop == "C17" {
		checkC17(res, s, sc, logs, &host, env, before, after)
	} else {
		checkC16(res, s, sc, logs, &host, env)
		if s.Aborted == "" && host.Panic == "" && sc != nil && sc.FailModule < 0 {
			checkFramesIntact(res, sc, logs, &host, env, after)
		}
	}

	// determinism hash and distinctness key
	h := world.NewHasher()
	world.EventsHash(h, s, env.Root)
	if host.Err != nil {
		h.Str(strings.ReplaceAll(host.Err.Error(), env.Root, "$SB"))
	}
	for _, f := range res.Failures {
		h.Str(f.Check)
	}
	for _, d := range world.DiffSnap(before, after) {
		h.Str(d)
	}
	res.Hash = h.Sum()
	k := world.NewHasher()
	for _, c := range res.Choices {
		k.Int(int64(c))
	}
	res.Key = k.Sum()
	for _, l := range logs {
		if l.Started {
			res.Nontrivial = true
		}
	}
	res.Count("runs.plugins="+fmt.Sprint(len(sc.Plugins)), 1)
	if host.Err != nil {
		res.Count("host.failed", 1)
	} else {
		res.Count("host.succeeded", 1)
	}
	for _, l := range logs {
		if l.TruncLen > 0 {
			st := "?"
			for x := StepHandshake; x < nSteps; x++ {
				if l.Script.Steps[x].Kind == ActTruncate {
					st = x.String()
					break
				}
			}
			res.Count(fmt.Sprintf("trunc.%s@%d/%d", st, l.TruncAt, l.TruncLen), 1)
		}
	}
	if o.Trace {
		res.Trace = append(sc.describe(), world.TraceOf(s, env.Root)...)
		res.Sample = map[string]interface{}{
			"scenario": sc.describe(),
			"host_error": func() string {
				if host.Err != nil {
					return strings.ReplaceAll(host.Err.Error(), env.Root, "$SB")
				}
				return ""
			}(),
			"steps":  s.Steps,
			"events": len(s.Events),
		}
	}
	return res
}

var pChannel = []simrt.Probe{simrt.NewProbe("conforming.reader-and-writer-set"), simrt.NewProbe("conforming.neither-set"),
	simrt.NewProbe("conforming.only-reader-set"), simrt.NewProbe("conforming.only-writer-set")}

// conformingMain runs the real plugin library with a scripted generator.
func conformingMain(ps *Script, log *PlugLog) func(p *simrt.Process) int {
	return func(p *simrt.Process) int {
		log.Started = true
		// the plugin's own channel, where it has one, else its standard streams; what it
		// leaves unset is the library's default: the standard streams of this process
		var in io.Reader = p.Stdin
		var out io.Writer = p.Stdout
		if ps.AltIn != nil {
			in = ps.AltIn
			defer ps.AltIn.Close()
		}
		if ps.AltOut != nil {
			out = ps.AltOut
			defer ps.AltOut.Close()
		}
		p.StdinView, p.StdoutView = newSniffReader(p.Stdin, log), newSniffWriter(p.Stdout, log)
		pl := &plugin.Plugin{Name: ps.Name}
		if ps.Channel == 0 || ps.Channel == 2 {
			pl.Reader = newSniffReader(in, log)
		}
		if ps.Channel == 0 || ps.Channel == 3 {
			pl.Writer = newSniffWriter(out, log)
		}
		pChannel[ps.Channel].Hit()
		if !ps.NoSG {
			pl.ServiceGenerator = &scriptedGenerator{ps: ps, log: log}
		}
		plugin.Main(pl)
		log.ExitReason = "main-returned"
		return ps.ExitStatus
	}
}

type scriptedGenerator struct {
	ps  *Script
	log *PlugLog
}

func (g *scriptedGenerator) Generate(req *api.GenerateServiceRequest) (*api.GenerateServiceResponse, error) {
	g.log.GenCalls++
	if w, err := req.ToWire(); err == nil {
		g.log.GenReq = refwire.FromWire(w)
	}
	if g.ps.GenErr {
		pGenErr.Hit()
		return nil, errors.New("scripted generator failure")
	}
	files := map[string][]byte{}
	for _, f := range g.ps.Files {
		pth := f.Path
		if f.Dyn {
			pth = "no-such-module/" + f.Base
			for _, m := range req.Modules {
				if strings.HasSuffix(m.ThriftFilePath, g.ps.ModSuffix) {
					pth = m.Directory + "/" + f.Base
				}
			}
		}
		files[pth] = []byte(f.Content)
	}
	return &api.GenerateServiceResponse{Files: files}, nil
}

var pGenErr = simrt.NewProbe("fault.plugin.generator-error")

// sortedKeys is a small helper for deterministic reports.
func sortedKeys(m map[string]string) []string {
	ks := make([]string, 0, len(m))
	for k := range m {
		ks = append(ks, k)
	}
	sort.Strings(ks)
	return ks
}

var _ = ref.TBool
