package orderw

import (
	"fmt"
	"path/filepath"
	"runtime/debug"
	"strings"

	"go.uber.org/thriftrw/compile"
	"go.uber.org/thriftrw/internal/zzsim/progen"
	"go.uber.org/thriftrw/internal/zzsim/simrt"
	"go.uber.org/thriftrw/internal/zzsim/world"
)

const memRoot = "/sim/thrift"

func ch(label string, n int) int { return simrt.Choice(label, n) }

// render puts the program into a MemFS, with the definitions of every file in
// the given textual order (nil = as generated).
func render(p *progen.Program) *MemFS {
	fs := &MemFS{Root: memRoot, Files: map[string]string{}}
	for i, f := range p.Files {
		fs.Files[f.RelPath()] = p.Render(i)
	}
	return fs
}

type compileOutcome struct {
	ok       bool
	err      string
	panic    string
	lines    []string
	problems []string
	dup      []string
}

// rootSpelling: how compileOnce spells the root file's path (0 = simplest form).
var rootSpelling int

func compileOnce(fs *MemFS, rootRel string) (o compileOutcome) {
	defer func() {
		if r := recover(); r != nil {
			o = compileOutcome{panic: fmt.Sprintf("%v\n%s", r, debug.Stack())}
		}
	}()
	// the root file may be named by a path that is not in its simplest form
	root := filepath.Join(memRoot, filepath.FromSlash(rootRel))
	switch rootSpelling {
	case 1:
		root = memRoot + "/./" + filepath.FromSlash(rootRel)
	case 2:
		root = memRoot + "/zz/../" + filepath.FromSlash(rootRel)
	case 3:
		root = filepath.FromSlash(rootRel) // relative to the file system's root directory
	}
	m, err := compile.Compile(root, compile.Filesystem(fs))
	if err != nil {
		return compileOutcome{err: err.Error()}
	}
	o.ok = true
	o.lines, o.problems, o.dup = DumpModule(memRoot, m)
	return o
}

func diffLines(a, b []string) string {
	inA := map[string]bool{}
	for _, l := range a {
		inA[l] = true
	}
	inB := map[string]bool{}
	for _, l := range b {
		inB[l] = true
	}
	var out []string
	for _, l := range a {
		if !inB[l] {
			out = append(out, "- "+l)
		}
	}
	for _, l := range b {
		if !inA[l] {
			out = append(out, "+ "+l)
		}
	}
	if len(out) > 6 {
		out = append(out[:6], fmt.Sprintf("... (%d more)", len(out)-6))
	}
	return strings.Join(out, " | ")
}

var orderNames = []string{"sorted", "reverse", "rotate", "random", "swap-first"}

// shuffleDefs permutes the definitions of every file by choices.
func shuffleDefs(p *progen.Program) {
	for _, f := range p.Files {
		n := len(f.Defs)
		for i := 0; i < n-1; i++ {
			j := ch("defs.perm", n-i)
			if j > 0 {
				f.Defs[i], f.Defs[i+j] = f.Defs[i+j], f.Defs[i]
			}
		}
	}
}

// RunC07 is one C07 run: one program, N link/definition orders.
func RunC07(cfg simrt.Config, o world.Opts) *world.Result {
	res := &world.Result{}
	if o.Trace {
		cfg.KeepLabels = true
	}
	cfg.StepCap = 1 << 40
	s := simrt.New(cfg)
	var lines []string
	logf := func(f string, a ...interface{}) {
		if o.Trace {
			lines = append(lines, fmt.Sprintf(f, a...))
		}
	}
	h := world.NewHasher()
	s.Inline(func() {
		p := progen.Gen(progen.Options{MaxFiles: 4, MaxDefs: 6, CapsWords: true, Consts: true, ConstRefs: true, Cyclic: true, Unions: true, Exceptions: true,
			Defaults: true, Dotted: true, Invalid: true, Recursive: true, SameNames: true, StructConsts: true, RecDefaults: true})
		if o.Trace {
			for _, l := range strings.Split(p.Describe(), "\n") {
				logf("  | %s", l)
			}
		}
		want, merr := p.Dump()
		if p.ModelSilent != "" && p.Invalid == "" {
			logf("reference model silent: %s", p.ModelSilent)
			res.Count("c07.programs-without-a-model-verdict", 1)
		} else if merr != nil {
			logf("reference model: program is invalid (%v)", merr)
			res.Count("c07.programs-invalid", 1)
		} else {
			res.Count("c07.programs-valid", 1)
		}
		N := 8
		if o.Tier == "thorough" {
			N = 24
		}
		var first *compileOutcome
		firstDesc := ""
		okRuns := 0
		for i := 0; i < N; i++ {
			var mo simrt.MapOrder
			switch i {
			case 0:
				mo = simrt.MapSorted
			case 1:
				mo = simrt.MapReverse
			default:
				mo = simrt.MapOrder(2 + ch("order.policy", 3))
			}
			s.SetMapOrder(mo)
			permuted := false
			if i >= 2 && i%2 == 0 {
				shuffleDefs(p)
				permuted = true
			}
			fs := render(p)
			rootSpelling = 0
			if simrt.Flip("c07.root-spelling", 0.25) {
				rootSpelling = 1 + ch("c07.root-spelling-kind", 3)
			}
			got := compileOnce(fs, p.Files[0].RelPath())
			rootSpelling = 0
			desc := fmt.Sprintf("schedule %d (map order %s, definitions permuted=%v)", i, orderNames[mo], permuted)
			if got.ok {
				okRuns++
				logf("%s: compiled, %d dump lines, problems=%v", desc, len(got.lines), got.problems)
			} else {
				logf("%s: %s%s", desc, first80(got.err), first80(got.panic))
			}
			h.Str(fmt.Sprint(got.ok))
			h.Str(strings.Join(got.lines, "\n"))
			res.Nontrivial = true
			if got.panic != "" {
				res.Failf("C07/panic", "%s: compile panicked: %s", desc, first80(got.panic))
				return
			}
			// 4. structural soundness of a successful compile
			if got.ok && len(got.problems) > 0 {
				res.Failf("C07/unresolved-in-graph", "%s: %s", desc, strings.Join(got.problems, "; "))
			}
			// 3. sharing
			if got.ok && len(got.dup) > 0 {
				res.Failf("C07/module-not-shared", "%s: more than one Module object for %v", desc, got.dup)
			}
			// 1. order independence
			if first == nil {
				g := got
				first, firstDesc = &g, desc
			} else {
				if got.ok != first.ok {
					res.Failf("C07/order-dependent-outcome", "%s%s -> ok=%v (%s) but %s -> ok=%v (%s)", f6Shape(p, first.err+" "+got.err), firstDesc, first.ok, first80(first.err), desc, got.ok, first80(got.err))
					return
				}
				if got.ok && strings.Join(got.lines, "\n") != strings.Join(first.lines, "\n") {
					res.Failf("C07/order-dependent-result", "%s and %s give different module graphs: %s", firstDesc, desc, diffLines(first.lines, got.lines))
					return
				}
			}
			// 2. reference model
			if p.ModelSilent != "" && p.Invalid == "" {
				continue // order independence only (checked above)
			}
			if merr != nil && got.ok {
				res.Failf("C07/invalid-accepted", "%s: compiled a program the reference model rejects (%v)", desc, merr)
				return
			}
			if merr == nil && !got.ok {
				res.Failf("C07/valid-rejected", "%s%s: rejected a program the reference model accepts: %s", f6Shape(p, got.err), desc, first80(got.err))
				return
			}
			if merr == nil && got.ok && strings.Join(got.lines, "\n") != strings.Join(want, "\n") {
				res.Failf("C07/binding", "%s: compiled graph differs from the reference model (- model, + compiled): %s", desc, diffLines(want, got.lines))
				return
			}
		}
		res.Count("c07.compiles-ok", int64(okRuns))
	})
	res.FromSim(s)
	for _, c := range res.Choices {
		h.Int(int64(c))
	}
	res.Hash = h.Sum()
	k := world.NewHasher()
	for _, c := range res.Choices {
		k.Int(int64(c))
	}
	res.Key = k.Sum()
	if o.Trace {
		res.Trace = append(lines, world.TraceOf(s, "")...)
		res.Sample = lines
	}
	return res
}

func first80(s string) string {
	if len(s) > 700 {
		return s[:700] + "..."
	}
	return s
}

// f6Shape marks a failure as an instance of open finding F6: the program has a
// default that leads back into a recursive structure, and the compiler failed
// to cast a constant to that very struct (or to a typedef on the way to it).
func f6Shape(p *progen.Program, errText string) string {
	if len(p.RecShape) == 0 || !strings.Contains(errText, "cannot cast") {
		return ""
	}
	for _, n := range p.RecShape {
		if strings.Contains(errText, fmt.Sprintf("to %q", n)) {
			return fmt.Sprintf("[F6-shape: a default leads back into the recursive struct %s while it is being linked] ", p.RecShape[0])
		}
	}
	return ""
}
