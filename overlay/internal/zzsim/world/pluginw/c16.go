package pluginw

import (
	"fmt"
	"strings"

	"go.uber.org/thriftrw/internal/zzsim/simrt"
	"go.uber.org/thriftrw/internal/zzsim/world"
)

// checkC16 evaluates the plugin-protocol oracles over the recorded history.
func checkC16(res *world.Result, s *simrt.Sim, sc *Scenario, logs []*PlugLog, host *hostResult, env *Env) {
	if sc == nil {
		return
	}
	// Liveness / totality.
	if s.Aborted != "" {
		res.Failf("C16/liveness-"+s.Aborted, "run abandoned (%s) after %d steps; host returned=%v", s.Aborted, s.Steps, host.Returned)
	}
	if host.Panic != "" {
		res.Failf("C16/host-panic", "host panicked: %s", first(host.Panic, 600))
	}
	for _, t := range s.Tasks() {
		if t.Panic != "" {
			res.Failf("C16/task-panic", "task %s panicked: %s", t.Name, first(t.Panic, 600))
		}
	}
	if s.Aborted != "" || host.Panic != "" {
		return
	}

	allHandshakesOK := true
	for _, l := range logs {
		if !l.Script.handshakeOK() {
			allHandshakesOK = false
		}
	}
	expectFail := false
	var failedNames []string
	for _, l := range logs {
		ps := l.Script
		if ps.Fails() {
			expectFail = true
			failedNames = append(failedNames, ps.Name)
		}
	}

	for _, l := range logs {
		ps := l.Script
		nGen := l.count("ServiceGenerator:generate")
		nBye := l.count("Plugin:goodbye")
		nHs := l.count("Plugin:handshake")
		// 1. Gate
		if nGen > 0 && !(ps.handshakeOK() && ps.advertisesSG()) {
			res.Failf("C16/gate", "plugin %s received generate although its handshake %s", ps.Name, why(ps))
		}
		if nGen > 0 && nHs == 0 {
			res.Failf("C16/gate", "plugin %s received generate before any handshake", ps.Name)
		}
		if nGen > 0 && len(l.Recv) > 0 && l.Recv[0].Name != "Plugin:handshake" {
			res.Failf("C16/gate", "plugin %s: first request was %q, not the handshake", ps.Name, l.Recv[0].Name)
		}
		if nGen > 1 {
			res.Failf("C16/generate-once", "plugin %s received %d generate requests", ps.Name, nGen)
		}
		if nHs > 1 {
			res.Failf("C16/handshake-once", "plugin %s received %d handshake requests", ps.Name, nHs)
		}
		// order: nothing after goodbye
		for i, f := range l.Recv {
			if f.Name == "Plugin:goodbye" && i != len(l.Recv)-1 {
				res.Failf("C16/automaton", "plugin %s received %q after goodbye", ps.Name, l.Recv[i+1].Name)
			}
			if f.Bad != "" {
				res.Failf("C16/host-frame-malformed", "plugin %s received an undecodable frame: %s", ps.Name, f.Bad)
			}
		}
		// 2. Goodbye
		if nBye > 1 {
			res.Failf("C16/goodbye-once", "plugin %s received %d goodbyes", ps.Name, nBye)
		}
		if l.Started && ps.handshakeOK() && nBye == 0 {
			// The plugin whose handshake succeeded must get a goodbye unless it
			// ended by its own script before the host shut it down.
			selfExit := strings.HasPrefix(l.ExitReason, "script-exit") || l.ExitReason == "write-error"
			if ps.Conforming {
				selfExit = false
			}
			if !selfExit {
				res.Failf("C16/goodbye-missing", "plugin %s (handshake ok) saw %s without a goodbye", ps.Name, l.ExitReason)
			}
		}
		// completeness of generate when nothing fails
		if !expectFail && allHandshakesOK && ps.advertisesSG() && l.Started && nGen != 1 && host.Err == nil {
			res.Failf("C16/generate-missing", "plugin %s advertised SERVICE_GENERATOR but received %d generate requests", ps.Name, nGen)
		}
		if ps.Conforming && ps.advertisesSG() && nGen != l.GenCalls {
			res.Failf("C16/conforming-generate", "plugin %s: %d generate frames but the generator ran %d times", ps.Name, nGen, l.GenCalls)
		}
	}

	// 3. Cleanup: every started process exited and was reaped, host pipe ends closed.
	for _, p := range s.Procs {
		if !p.Exited {
			res.Failf("C16/cleanup-alive", "process %s still alive when the run ended", p.Name)
		}
		if !p.Reaped {
			res.Failf("C16/cleanup-unreaped", "process %s was never waited for", p.Name)
		}
	}
	hostClosed := map[string]bool{}
	for _, e := range s.Events {
		if e.Kind == "close-write" && strings.HasSuffix(e.Obj, ".stdin.host") {
			hostClosed[strings.TrimSuffix(e.Obj, ".stdin.host")] = true
		}
	}
	_ = hostClosed

	// 4. Exit status.
	if host.Returned {
		if expectFail && host.Err == nil {
			res.Failf("C16/exit-status-missed-failure", "plugins %v failed but the host reported success", failedNames)
		}
		if !expectFail && host.Err != nil {
			res.Failf("C16/exit-status-spurious-failure", "no plugin failed but the host failed: %s", first(strings.ReplaceAll(host.Err.Error(), env.Root, "$SB"), 400))
		}
		if expectFail && host.Err != nil {
			named := false
			for _, n := range failedNames {
				if strings.Contains(host.Err.Error(), n) {
					named = true
				}
			}
			if !named {
				res.Failf("C16/exit-status-names-plugin", "host error does not name any failed plugin %v: %s", failedNames, first(strings.ReplaceAll(host.Err.Error(), env.Root, "$SB"), 400))
			}
		}
	}
}

func why(ps *Script) string {
	switch {
	case ps.StartFail != 0:
		return "never happened (start failed)"
	case ps.ExitAtStart:
		return "never happened (exit at start)"
	case !ps.handshakeOK():
		return fmt.Sprintf("failed (%s)", ps.Steps[StepHandshake].Kind)
	case !ps.advertisesSG():
		return "did not advertise SERVICE_GENERATOR"
	}
	return "succeeded"
}

func first(s string, n int) string {
	if len(s) > n {
		return s[:n] + "..."
	}
	return s
}
