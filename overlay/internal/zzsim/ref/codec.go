// Package ref holds the harness's own reference models. codec.go is an
// independent Thrift binary codec over a plain value tree (written from the
// protocol specification, importing nothing from thriftrw), plus frame and
// envelope readers used by simulated plugin processes, so that what a fake
// plugin "saw" never depends on the code under test.
package ref

import (
	"bytes"
	"encoding/binary"
	"errors"
	"fmt"
	"math"
	"sort"
)

// Thrift type codes.
const (
	TBool   = 2
	TI8     = 3
	TDouble = 4
	TI16    = 6
	TI32    = 8
	TI64    = 10
	TBinary = 11
	TStruct = 12
	TMap    = 13
	TSet    = 14
	TList   = 15
)

var AllTypes = []byte{TBool, TI8, TDouble, TI16, TI32, TI64, TBinary, TStruct, TMap, TSet, TList}

func ValidType(t byte) bool {
	switch t {
	case TBool, TI8, TDouble, TI16, TI32, TI64, TBinary, TStruct, TMap, TSet, TList:
		return true
	}
	return false
}

func TypeName(t byte) string {
	switch t {
	case TBool:
		return "bool"
	case TI8:
		return "i8"
	case TDouble:
		return "double"
	case TI16:
		return "i16"
	case TI32:
		return "i32"
	case TI64:
		return "i64"
	case TBinary:
		return "binary"
	case TStruct:
		return "struct"
	case TMap:
		return "map"
	case TSet:
		return "set"
	case TList:
		return "list"
	}
	return fmt.Sprintf("type(%d)", t)
}

// Val is a Thrift wire value.
type Val struct {
	T      byte
	I      int64   // bool (0/1), i8, i16, i32, i64; double as IEEE bits
	B      []byte  // binary
	Fields []Field // struct
	KT, VT byte    // map key/value type; set/list element type in VT
	Items  []Val   // list/set elements; map: k0,v0,k1,v1,...
}

type Field struct {
	ID int16
	V  Val
}

func Bool(b bool) Val {
	if b {
		return Val{T: TBool, I: 1}
	}
	return Val{T: TBool}
}
func I8(v int8) Val        { return Val{T: TI8, I: int64(v)} }
func I16(v int16) Val      { return Val{T: TI16, I: int64(v)} }
func I32(v int32) Val      { return Val{T: TI32, I: int64(v)} }
func I64(v int64) Val      { return Val{T: TI64, I: v} }
func Double(f float64) Val { return Val{T: TDouble, I: int64(math.Float64bits(f))} }
func Bin(b []byte) Val     { return Val{T: TBinary, B: b} }
func Str(s string) Val     { return Val{T: TBinary, B: []byte(s)} }
func Struct(fs ...Field) Val {
	return Val{T: TStruct, Fields: fs}
}
func F(id int16, v Val) Field { return Field{id, v} }
func List(et byte, items ...Val) Val {
	return Val{T: TList, VT: et, Items: items}
}
func Set(et byte, items ...Val) Val {
	return Val{T: TSet, VT: et, Items: items}
}
func Map(kt, vt byte, kv ...Val) Val {
	return Val{T: TMap, KT: kt, VT: vt, Items: kv}
}

// Get returns the first field with the given id.
func (v Val) Get(id int16) (Val, bool) {
	for _, f := range v.Fields {
		if f.ID == id {
			return f.V, true
		}
	}
	return Val{}, false
}

// Encode appends the binary encoding of v.
func Encode(buf []byte, v Val) []byte {
	switch v.T {
	case TBool, TI8:
		return append(buf, byte(v.I))
	case TI16:
		return binary.BigEndian.AppendUint16(buf, uint16(v.I))
	case TI32:
		return binary.BigEndian.AppendUint32(buf, uint32(v.I))
	case TI64, TDouble:
		return binary.BigEndian.AppendUint64(buf, uint64(v.I))
	case TBinary:
		buf = binary.BigEndian.AppendUint32(buf, uint32(len(v.B)))
		return append(buf, v.B...)
	case TStruct:
		for _, f := range v.Fields {
			buf = append(buf, f.V.T)
			buf = binary.BigEndian.AppendUint16(buf, uint16(f.ID))
			buf = Encode(buf, f.V)
		}
		return append(buf, 0)
	case TMap:
		buf = append(buf, v.KT, v.VT)
		buf = binary.BigEndian.AppendUint32(buf, uint32(len(v.Items)/2))
		for _, it := range v.Items {
			buf = Encode(buf, it)
		}
		return buf
	case TSet, TList:
		buf = append(buf, v.VT)
		buf = binary.BigEndian.AppendUint32(buf, uint32(len(v.Items)))
		for _, it := range v.Items {
			buf = Encode(buf, it)
		}
		return buf
	}
	panic(fmt.Sprintf("ref.Encode: bad type %d", v.T))
}

var (
	ErrShort   = errors.New("ref: unexpected end of input")
	ErrInvalid = errors.New("ref: invalid encoding")
)

const maxDepth = 256

// Decode strictly decodes one value of type t from b and returns it together
// with the number of bytes consumed. Strict means: bool is 0 or 1, lengths and
// counts are non-negative, type codes are valid.
func Decode(b []byte, t byte) (Val, int, error) {
	return decode(b, t, 0)
}

func decode(b []byte, t byte, depth int) (Val, int, error) {
	if depth > maxDepth {
		return Val{}, 0, ErrInvalid
	}
	need := func(n int) error {
		if len(b) < n {
			return ErrShort
		}
		return nil
	}
	switch t {
	case TBool:
		if err := need(1); err != nil {
			return Val{}, 0, err
		}
		if b[0] > 1 {
			return Val{}, 0, ErrInvalid
		}
		return Val{T: t, I: int64(b[0])}, 1, nil
	case TI8:
		if err := need(1); err != nil {
			return Val{}, 0, err
		}
		return Val{T: t, I: int64(int8(b[0]))}, 1, nil
	case TI16:
		if err := need(2); err != nil {
			return Val{}, 0, err
		}
		return Val{T: t, I: int64(int16(binary.BigEndian.Uint16(b)))}, 2, nil
	case TI32:
		if err := need(4); err != nil {
			return Val{}, 0, err
		}
		return Val{T: t, I: int64(int32(binary.BigEndian.Uint32(b)))}, 4, nil
	case TI64, TDouble:
		if err := need(8); err != nil {
			return Val{}, 0, err
		}
		return Val{T: t, I: int64(binary.BigEndian.Uint64(b))}, 8, nil
	case TBinary:
		if err := need(4); err != nil {
			return Val{}, 0, err
		}
		n := int32(binary.BigEndian.Uint32(b))
		if n < 0 {
			return Val{}, 0, ErrInvalid
		}
		if len(b)-4 < int(n) {
			return Val{}, 0, ErrShort
		}
		return Val{T: t, B: append([]byte{}, b[4:4+int(n)]...)}, 4 + int(n), nil
	case TStruct:
		off := 0
		v := Val{T: t}
		for {
			if len(b)-off < 1 {
				return Val{}, 0, ErrShort
			}
			ft := b[off]
			off++
			if ft == 0 {
				return v, off, nil
			}
			if !ValidType(ft) {
				return Val{}, 0, ErrInvalid
			}
			if len(b)-off < 2 {
				return Val{}, 0, ErrShort
			}
			id := int16(binary.BigEndian.Uint16(b[off:]))
			off += 2
			fv, n, err := decode(b[off:], ft, depth+1)
			if err != nil {
				return Val{}, 0, err
			}
			off += n
			v.Fields = append(v.Fields, Field{id, fv})
		}
	case TMap:
		if err := need(6); err != nil {
			return Val{}, 0, err
		}
		kt, vt := b[0], b[1]
		n := int32(binary.BigEndian.Uint32(b[2:]))
		if n < 0 {
			return Val{}, 0, ErrInvalid
		}
		if !ValidType(kt) || !ValidType(vt) {
			return Val{}, 0, ErrInvalid
		}
		off := 6
		v := Val{T: t, KT: kt, VT: vt}
		for i := int32(0); i < n; i++ {
			k, c, err := decode(b[off:], kt, depth+1)
			if err != nil {
				return Val{}, 0, err
			}
			off += c
			x, c, err := decode(b[off:], vt, depth+1)
			if err != nil {
				return Val{}, 0, err
			}
			off += c
			v.Items = append(v.Items, k, x)
		}
		return v, off, nil
	case TSet, TList:
		if err := need(5); err != nil {
			return Val{}, 0, err
		}
		et := b[0]
		n := int32(binary.BigEndian.Uint32(b[1:]))
		if n < 0 {
			return Val{}, 0, ErrInvalid
		}
		if !ValidType(et) {
			return Val{}, 0, ErrInvalid
		}
		off := 5
		v := Val{T: t, VT: et}
		for i := int32(0); i < n; i++ {
			x, c, err := decode(b[off:], et, depth+1)
			if err != nil {
				return Val{}, 0, err
			}
			off += c
			v.Items = append(v.Items, x)
		}
		return v, off, nil
	}
	return Val{}, 0, ErrInvalid
}

// Canon returns a canonical byte string for v in which set elements and map
// entries are order-insensitive (sorted by their canonical forms), lists are
// ordered, and struct fields are sorted by id (stable).
func Canon(v Val) []byte {
	var buf bytes.Buffer
	canon(&buf, v)
	return buf.Bytes()
}

func canon(buf *bytes.Buffer, v Val) {
	buf.WriteByte(v.T)
	switch v.T {
	case TBool, TI8, TI16, TI32, TI64, TDouble:
		var tmp [8]byte
		binary.BigEndian.PutUint64(tmp[:], uint64(v.I))
		buf.Write(tmp[:])
	case TBinary:
		var tmp [4]byte
		binary.BigEndian.PutUint32(tmp[:], uint32(len(v.B)))
		buf.Write(tmp[:])
		buf.Write(v.B)
	case TStruct:
		fs := append([]Field{}, v.Fields...)
		sort.SliceStable(fs, func(i, j int) bool { return fs[i].ID < fs[j].ID })
		for _, f := range fs {
			var tmp [2]byte
			binary.BigEndian.PutUint16(tmp[:], uint16(f.ID))
			buf.Write(tmp[:])
			canon(buf, f.V)
		}
		buf.WriteByte(0)
	case TList:
		buf.WriteByte(v.VT)
		fmt.Fprintf(buf, "%d:", len(v.Items))
		for _, it := range v.Items {
			canon(buf, it)
		}
	case TSet:
		buf.WriteByte(v.VT)
		fmt.Fprintf(buf, "%d:", len(v.Items))
		parts := make([]string, len(v.Items))
		for i, it := range v.Items {
			parts[i] = string(Canon(it))
		}
		sort.Strings(parts)
		for _, p := range parts {
			fmt.Fprintf(buf, "%d:", len(p))
			buf.WriteString(p)
		}
	case TMap:
		buf.WriteByte(v.KT)
		buf.WriteByte(v.VT)
		fmt.Fprintf(buf, "%d:", len(v.Items)/2)
		parts := make([]string, 0, len(v.Items)/2)
		for i := 0; i+1 < len(v.Items); i += 2 {
			k := Canon(v.Items[i])
			x := Canon(v.Items[i+1])
			parts = append(parts, fmt.Sprintf("%d:%s%d:%s", len(k), k, len(x), x))
		}
		sort.Strings(parts)
		for _, p := range parts {
			buf.WriteString(p)
		}
	}
}

// Equal compares two values up to set/map entry order and struct field order.
func Equal(a, b Val) bool { return bytes.Equal(Canon(a), Canon(b)) }

// String renders a value compactly for traces.
func (v Val) String() string {
	var buf bytes.Buffer
	v.str(&buf, 0)
	s := buf.String()
	if len(s) > 400 {
		s = s[:400] + "..."
	}
	return s
}

func (v Val) str(buf *bytes.Buffer, d int) {
	if buf.Len() > 500 {
		return
	}
	switch v.T {
	case TBool, TI8, TI16, TI32, TI64:
		fmt.Fprintf(buf, "%s(%d)", TypeName(v.T), v.I)
	case TDouble:
		fmt.Fprintf(buf, "double(%#x)", uint64(v.I))
	case TBinary:
		if len(v.B) > 24 {
			fmt.Fprintf(buf, "bin[%d](%q...)", len(v.B), v.B[:24])
		} else {
			fmt.Fprintf(buf, "%q", v.B)
		}
	case TStruct:
		buf.WriteString("{")
		for i, f := range v.Fields {
			if i > 0 {
				buf.WriteString(", ")
			}
			fmt.Fprintf(buf, "%d: ", f.ID)
			f.V.str(buf, d+1)
		}
		buf.WriteString("}")
	case TList, TSet:
		fmt.Fprintf(buf, "%s<%s>[", TypeName(v.T), TypeName(v.VT))
		for i, it := range v.Items {
			if i > 0 {
				buf.WriteString(", ")
			}
			it.str(buf, d+1)
		}
		buf.WriteString("]")
	case TMap:
		fmt.Fprintf(buf, "map<%s,%s>[", TypeName(v.KT), TypeName(v.VT))
		for i := 0; i+1 < len(v.Items); i += 2 {
			if i > 0 {
				buf.WriteString(", ")
			}
			v.Items[i].str(buf, d+1)
			buf.WriteString(": ")
			v.Items[i+1].str(buf, d+1)
		}
		buf.WriteString("]")
	default:
		fmt.Fprintf(buf, "?%d", v.T)
	}
}

// ---------------------------------------------------------------------------
// Envelopes and frames

const (
	Call      = 1
	Reply     = 2
	Exception = 3
	OneWay    = 4
)

type Envelope struct {
	Name   string
	Type   int8
	SeqID  int32
	Body   Val
	Strict bool
}

// EncodeEnvelope encodes a versioned (strict) or legacy envelope.
func EncodeEnvelope(e Envelope) []byte {
	var buf []byte
	if e.Strict {
		buf = binary.BigEndian.AppendUint32(buf, 0x80010000|uint32(uint8(e.Type)))
		buf = binary.BigEndian.AppendUint32(buf, uint32(len(e.Name)))
		buf = append(buf, e.Name...)
		buf = binary.BigEndian.AppendUint32(buf, uint32(e.SeqID))
	} else {
		buf = binary.BigEndian.AppendUint32(buf, uint32(len(e.Name)))
		buf = append(buf, e.Name...)
		buf = append(buf, byte(e.Type))
		buf = binary.BigEndian.AppendUint32(buf, uint32(e.SeqID))
	}
	return Encode(buf, e.Body)
}

// DecodeEnvelope decodes a versioned or legacy envelope and returns the bytes consumed.
func DecodeEnvelope(b []byte) (Envelope, int, error) {
	var e Envelope
	if len(b) < 4 {
		return e, 0, ErrShort
	}
	first := int32(binary.BigEndian.Uint32(b))
	off := 4
	if first < 0 {
		if uint32(first)&0xffff0000 != 0x80010000 {
			return e, 0, ErrInvalid
		}
		e.Strict = true
		e.Type = int8(first & 0xff)
		if len(b) < off+4 {
			return e, 0, ErrShort
		}
		n := int32(binary.BigEndian.Uint32(b[off:]))
		off += 4
		if n < 0 {
			return e, 0, ErrInvalid
		}
		if len(b)-off < int(n) {
			return e, 0, ErrShort
		}
		e.Name = string(b[off : off+int(n)])
		off += int(n)
	} else {
		n := first
		if len(b)-off < int(n) {
			return e, 0, ErrShort
		}
		e.Name = string(b[off : off+int(n)])
		off += int(n)
		if len(b)-off < 1 {
			return e, 0, ErrShort
		}
		e.Type = int8(b[off])
		off++
	}
	if len(b)-off < 4 {
		return e, 0, ErrShort
	}
	e.SeqID = int32(binary.BigEndian.Uint32(b[off:]))
	off += 4
	body, n, err := Decode(b[off:], TStruct)
	if err != nil {
		return e, 0, err
	}
	e.Body = body
	return e, off + n, nil
}

// Frame prefixes payload with its 4-byte big-endian length.
func Frame(payload []byte) []byte {
	buf := binary.BigEndian.AppendUint32(nil, uint32(len(payload)))
	return append(buf, payload...)
}

// Marks are the offsets of structural bytes in an encoding, for format-aware mutation.
type Marks struct {
	Types []int // offsets of type bytes (field types, element/key/value types)
	Lens  []int // offsets of 4-byte length/count fields
	IDs   []int // offsets of 2-byte field ids
}

// EncodeMarked is Encode that also reports where the structural bytes are.
func EncodeMarked(buf []byte, v Val, m *Marks) []byte {
	switch v.T {
	case TBinary:
		m.Lens = append(m.Lens, len(buf))
		return Encode(buf, v)
	case TStruct:
		for _, f := range v.Fields {
			m.Types = append(m.Types, len(buf))
			buf = append(buf, f.V.T)
			m.IDs = append(m.IDs, len(buf))
			buf = binary.BigEndian.AppendUint16(buf, uint16(f.ID))
			buf = EncodeMarked(buf, f.V, m)
		}
		m.Types = append(m.Types, len(buf))
		return append(buf, 0)
	case TMap:
		m.Types = append(m.Types, len(buf), len(buf)+1)
		buf = append(buf, v.KT, v.VT)
		m.Lens = append(m.Lens, len(buf))
		buf = binary.BigEndian.AppendUint32(buf, uint32(len(v.Items)/2))
		for _, it := range v.Items {
			buf = EncodeMarked(buf, it, m)
		}
		return buf
	case TSet, TList:
		m.Types = append(m.Types, len(buf))
		buf = append(buf, v.VT)
		m.Lens = append(m.Lens, len(buf))
		buf = binary.BigEndian.AppendUint32(buf, uint32(len(v.Items)))
		for _, it := range v.Items {
			buf = EncodeMarked(buf, it, m)
		}
		return buf
	}
	return Encode(buf, v)
}
