// Package simlog is the `log` seam: Fatal* ends the simulated process (status
// 1) instead of the simulator; everything else is the real package.
package simlog

import (
	"fmt"
	"io"
	"log"

	"go.uber.org/thriftrw/internal/zzsim/simrt"
)

type Logger = log.Logger

const (
	Ldate         = log.Ldate
	Ltime         = log.Ltime
	Lmicroseconds = log.Lmicroseconds
	Llongfile     = log.Llongfile
	Lshortfile    = log.Lshortfile
	LUTC          = log.LUTC
	Lmsgprefix    = log.Lmsgprefix
	LstdFlags     = log.LstdFlags
)

func New(out io.Writer, prefix string, flag int) *Logger { return log.New(out, prefix, flag) }
func Default() *Logger                                   { return log.Default() }
func SetFlags(flag int)                                  { log.SetFlags(flag) }
func SetPrefix(p string)                                 { log.SetPrefix(p) }
func SetOutput(w io.Writer)                              { log.SetOutput(w) }
func Flags() int                                         { return log.Flags() }
func Prefix() string                                     { return log.Prefix() }
func Writer() io.Writer                                  { return log.Writer() }

func quiet() bool { return simrt.Active() }

func Print(v ...interface{}) {
	if !quiet() {
		log.Print(v...)
	}
}
func Printf(format string, v ...interface{}) {
	if !quiet() {
		log.Printf(format, v...)
	}
}
func Println(v ...interface{}) {
	if !quiet() {
		log.Println(v...)
	}
}

func Panic(v ...interface{})                 { panic(fmt.Sprint(v...)) }
func Panicf(format string, v ...interface{}) { panic(fmt.Sprintf(format, v...)) }
func Panicln(v ...interface{})               { panic(fmt.Sprintln(v...)) }

// FatalExit is what Fatal* panics with in a run without tasks (simrt.Inline) while a
// world has set CatchFatal: the world that called a tool's main() recovers it and takes
// it for "the process printed Msg and exited with status 1".
type FatalExit struct{ Msg string }

// CatchFatal is set by a world around its call of a main() under simrt.Inline.
var CatchFatal bool

func fatal(msg string) {
	if simrt.Active() && simrt.Cur() != nil {
		simrt.Emit("log-fatal", "", 0, msg)
		simrt.Exit(1)
	}
	if simrt.Active() && CatchFatal {
		panic(FatalExit{Msg: msg})
	}
	log.Fatal(msg)
}

func Fatal(v ...interface{})                 { fatal(fmt.Sprint(v...)) }
func Fatalf(format string, v ...interface{}) { fatal(fmt.Sprintf(format, v...)) }
func Fatalln(v ...interface{})               { fatal(fmt.Sprintln(v...)) }
