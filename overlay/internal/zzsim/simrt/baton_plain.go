//go:build !race

package simrt

// baton: in ordinary builds a buffered channel.
type baton struct{ ch chan struct{} }

func newBaton() baton { return baton{ch: make(chan struct{}, 1)} }

func (b baton) park()        { <-b.ch }
func (b baton) unpark()      { b.ch <- struct{}{} }
func (b baton) parkForever() { select {} }
func (b baton) free()        {}

// RaceEnabled reports whether this is a -race build.
const RaceEnabled = false

func raceAcquire(p *byte)      {}
func raceReleaseMerge(p *byte) {}
