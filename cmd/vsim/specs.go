package main

var realPlugin = []string{"main.do (CLI)", "compile", "idl", "ast", "gen", "protocol/binary", "wire", "envelope", "internal/envelope", "internal/multiplex",
	"internal/frame", "internal/process", "internal/plugin", "internal/concurrent", "plugin (plugin.Main, generated handlers)", "plugin/api (generated)",
	"third party: go-flags, multierr, go.uber.org/atomic, text/template, go/format", "file system (private tmpfs directory per run, not stubbed)"}

var stubPlugin = []string{"os/exec.Cmd -> simexec.Cmd (simulated process table)", "OS pipes -> simulated 64KiB pipes (no loss/dup/reorder; chunking is a choice)",
	"plugin processes -> simulator tasks (scripted raw-pipe interpreter, or the real plugin.Main with a scripted generator)",
	"sync.Mutex/WaitGroup/Pool -> simulated (scheduler-decided)", "goroutine scheduling -> seeded single-baton scheduler", "Go map iteration order -> seeded permutation (MapSeq)", "log.Fatalf -> exit of the simulated process"}

var specs = map[string]Spec{
	"C16": {
		Prop: "C16", Engine: "plugin-world", Level: "fault_enumeration", Binary: "root",
		Quick:    Tier{Count: 2500, Floor: true, BudgetS: 45},
		Thorough: Tier{Count: 400000, Floor: true, BudgetS: 1200},
		Rule: "systematic floor: 1 scripted plugin x 3 protocol steps x 13 reply actions, truncation at byte offsets 0..159 (mod frame length), whole and 1-byte writes, each with seeded chunking/interleaving; " +
			"seeded search: 0-3 plugins (scripted or real plugin.Main) with independent fault scripts, random programs, options, chunking, strategies, preemption, frame fast-path threshold. " +
			"A run is non-trivial if at least one plugin process was started; distinct = distinct recorded choice lists among those.",
		RealComp: realPlugin, StubComp: stubPlugin,
		Assume: []string{"plugins terminate: a script that leaves a partial frame always exits (a peer that stalls forever hangs any host)",
			"pipes are reliable byte streams (no loss, duplication or reordering)", "API_VERSION=4 and the method names are taken from plugin/api.thrift",
			"no disk faults are injected"},
	},
}
