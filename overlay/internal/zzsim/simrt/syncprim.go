package simrt

import (
	"reflect"
	"sync"
	"unsafe"
)

// Mutex is the simulated sync.Mutex. Blocking is decided by the scheduler
// from `held`; the embedded real mutex is never contended and exists only so
// that the race detector sees the happens-before edges a real mutex gives.
type Mutex struct {
	real sync.Mutex
	held bool
}

//go:norace
func (m *Mutex) Lock() {
	s := S
	if s == nil || s.cur == nil {
		m.real.Lock()
		return
	}
	pMutexLock.Hit()
	s.yield()
	if m.held {
		pMutexContended.Hit()
		s.blockOn(wMutex, m)
	}
	m.held = true
	m.real.Lock()
}

//go:norace
func (m *Mutex) TryLock() bool {
	s := S
	if s == nil || s.cur == nil {
		return m.real.TryLock()
	}
	s.yield()
	if m.held {
		return false
	}
	m.held = true
	m.real.Lock()
	return true
}

//go:norace
func (m *Mutex) Unlock() {
	s := S
	if s == nil || s.cur == nil {
		m.real.Unlock()
		return
	}
	if !m.held {
		panic("sync: unlock of unlocked mutex")
	}
	m.real.Unlock()
	m.held = false
	s.yield()
}

// RWMutex is the simulated sync.RWMutex (writer-exclusive, many readers).
type RWMutex struct {
	real    sync.RWMutex
	writer  bool
	readers int
}

//go:norace
func (m *RWMutex) Lock() {
	s := S
	if s == nil || s.cur == nil {
		m.real.Lock()
		return
	}
	s.yield()
	if m.writer || m.readers > 0 {
		s.blockOn(wRWWrite, m)
	}
	m.writer = true
	m.real.Lock()
}

//go:norace
func (m *RWMutex) Unlock() {
	s := S
	if s == nil || s.cur == nil {
		m.real.Unlock()
		return
	}
	if !m.writer {
		panic("sync: Unlock of unlocked RWMutex")
	}
	m.real.Unlock()
	m.writer = false
	s.yield()
}

//go:norace
func (m *RWMutex) RLock() {
	s := S
	if s == nil || s.cur == nil {
		m.real.RLock()
		return
	}
	s.yield()
	if m.writer {
		s.blockOn(wRWRead, m)
	}
	m.readers++
	m.real.RLock()
}

//go:norace
func (m *RWMutex) RUnlock() {
	s := S
	if s == nil || s.cur == nil {
		m.real.RUnlock()
		return
	}
	if m.readers <= 0 {
		panic("sync: RUnlock of unlocked RWMutex")
	}
	m.real.RUnlock()
	m.readers--
	s.yield()
}

// RLocker returns a Locker for the read side.
func (m *RWMutex) RLocker() sync.Locker { return rlocker{m} }

type rlocker struct{ m *RWMutex }

func (r rlocker) Lock()   { r.m.RLock() }
func (r rlocker) Unlock() { r.m.RUnlock() }

// Once is the simulated sync.Once: a second caller arriving while the first is
// still inside f blocks until f has returned.
type Once struct {
	m    Mutex
	done bool
}

//go:norace
func (o *Once) Do(f func()) {
	if o.done {
		return
	}
	o.m.Lock()
	defer o.m.Unlock()
	if !o.done {
		defer func() { o.done = true }()
		f()
	}
}

// WaitGroup is the simulated sync.WaitGroup.
type WaitGroup struct {
	real sync.WaitGroup
	n    int
}

//go:norace
func (wg *WaitGroup) Add(delta int) {
	s := S
	if s == nil || s.cur == nil {
		wg.real.Add(delta)
		return
	}
	wg.n += delta
	if wg.n < 0 {
		panic("sync: negative WaitGroup counter")
	}
	wg.real.Add(delta)
}

//go:norace
func (wg *WaitGroup) Done() {
	wg.Add(-1)
	if s := S; s != nil && s.cur != nil {
		s.yield()
	}
}

//go:norace
func (wg *WaitGroup) Wait() {
	s := S
	if s == nil || s.cur == nil {
		wg.real.Wait()
		return
	}
	s.yield()
	if wg.n != 0 {
		pWGWaited.Hit()
		s.blockOn(wWG, wg)
	}
	wg.real.Wait()
}

// Pool is the simulated sync.Pool: which object a Get returns (or whether New
// is called) and whether a Put is kept are choices of the run. It checks the
// pool discipline: no double Put, no write to an object between its Put and
// the Get that hands it out again.
type Pool struct {
	New func() interface{}

	items      []poolItem
	registered bool
	outside    sync.Mutex // guards items when no run is active (real goroutines may then share the pool)
}

type poolItem struct {
	obj     interface{}
	hash    uint64
	size    uintptr
	carrier *byte // per-object release/acquire carrier, like sync.Pool's poolRaceAddr
}

var allPools []*Pool

//go:norace
func resetPools() {
	for _, p := range allPools {
		p.items = p.items[:0]
	}
}

// PoolStash is what the pools held when StashPools emptied them.
type PoolStash map[*Pool][]poolItem

// StashPools empties every pool (the next Get of each finds it fresh) and adds what they held to
// st, so that Restore can put it all back later.
//
//go:norace
func StashPools(st PoolStash) PoolStash {
	if st == nil {
		st = PoolStash{}
	}
	for _, p := range allPools {
		for i := range p.items { // element by element, not append(x, y...): see pipe.go
			st[p] = append(st[p], p.items[i])
		}
		p.items = nil
	}
	return st
}

// Restore puts everything stashed back in front of what the pools hold now.
//
//go:norace
func (st PoolStash) Restore() {
	for _, p := range allPools {
		if it := st[p]; len(it) > 0 {
			var all []poolItem
			for i := range it {
				all = append(all, it[i])
			}
			for i := range p.items {
				all = append(all, p.items[i])
			}
			p.items = all
			delete(st, p)
		}
	}
}

//go:norace
func shallowHash(x interface{}) (uint64, uintptr) {
	v := reflect.ValueOf(x)
	if v.Kind() != reflect.Ptr || v.IsNil() {
		return 0, 0
	}
	size := v.Type().Elem().Size()
	if size == 0 {
		return 0, 0
	}
	p := unsafe.Pointer(v.Pointer())
	b := unsafe.Slice((*byte)(p), size)
	h := uint64(1469598103934665603)
	for _, c := range b {
		h = (h ^ uint64(c)) * 1099511628211
	}
	return h, size
}

//go:norace
func (p *Pool) Get() interface{} {
	s := S
	if s == nil {
		p.outside.Lock()
		defer p.outside.Unlock()
	}
	inTask := s != nil && s.cur != nil
	if !p.registered {
		p.registered = true
		allPools = append(allPools, p)
	}
	if inTask {
		s.yield()
	}
	n := len(p.items)
	// choice 0 = most recently Put object (what an uncontended sync.Pool does),
	// 1..n-1 = an older one, n = ignore the pool and call New.
	c := 0
	if s != nil {
		c = s.choose("pool.get", n+1, 0.7)
	}
	if c >= n {
		if n > 0 {
			pPoolNewDespiteItems.Hit()
		}
		if p.New == nil {
			return nil
		}
		return p.New()
	}
	idx := n - 1 - c
	it := p.items[idx]
	for i := idx; i < n-1; i++ { // not copy(): see pipe.go
		p.items[i] = p.items[i+1]
	}
	p.items[n-1] = poolItem{}
	p.items = p.items[:n-1]
	pPoolReuse.Hit()
	if it.size > 0 {
		if h, _ := shallowHash(it.obj); h != it.hash {
			if s != nil {
				s.Fail("pool/write-after-put", "object of type %T changed between Put and the Get that returned it", it.obj)
			}
		}
	}
	raceAcquire(it.carrier)
	return it.obj
}

//go:norace
func (p *Pool) Put(x interface{}) {
	if x == nil {
		return
	}
	s := S
	if s == nil {
		p.outside.Lock()
		defer p.outside.Unlock()
	}
	inTask := s != nil && s.cur != nil
	if !p.registered {
		p.registered = true
		allPools = append(allPools, p)
	}
	for _, it := range p.items {
		if it.obj == x {
			if s != nil {
				s.Fail("pool/double-put", "object of type %T Put twice without a Get in between", x)
			}
			pPoolDoublePut.Hit()
			// the duplicate is kept, as sync.Pool keeps it: two later Gets can then hand out
			// the same object, and the checks see the consequences
			break
		}
	}
	drop := false
	if s != nil {
		drop = s.choose("pool.put", 2, 0.9) == 1
	}
	if drop {
		pPoolDrop.Hit()
	} else {
		h, sz := shallowHash(x)
		c := new(byte)
		raceReleaseMerge(c)
		p.items = append(p.items, poolItem{obj: x, hash: h, size: sz, carrier: c})
	}
	if inTask {
		s.yield()
	}
}

var (
	pMutexLock           = NewProbe("sync.mutex-lock")
	pMutexContended      = NewProbe("sync.mutex-contended")
	pWGWaited            = NewProbe("sync.waitgroup-blocked")
	pPoolReuse           = NewProbe("pool.reuse")
	pPoolNewDespiteItems = NewProbe("pool.new-despite-items")
	pPoolDrop            = NewProbe("pool.drop")
	pPoolDoublePut       = NewProbe("pool.double-put")
)
