// Package seam rewrites a scratch copy of the thriftrw module so that every
// source of nondeterminism the claimed properties depend on goes through the
// simulator: sync -> simsync, os/exec -> simexec, log (where Fatal* is used)
// -> simlog, `go` statements -> simrt.Go, range-over-map -> simrt.MapSeq,
// reflect MapKeys -> simrt.SortedMapKeys, and Yield sites in the small
// concurrent packages. The rules are type driven (go/packages), not a list of
// line numbers, so they keep working when the tree under test was edited.
package seam

import (
	"bytes"
	"fmt"
	"go/ast"
	"go/format"
	"go/token"
	"go/types"
	"os"
	"path/filepath"
	"sort"
	"strconv"
	"strings"

	"golang.org/x/tools/go/packages"
)

const (
	Module   = "go.uber.org/thriftrw"
	ZZ       = Module + "/internal/zzsim"
	simrtP   = ZZ + "/simrt"
	simsyncP = ZZ + "/simsync"
	simexecP = ZZ + "/simexec"
	simlogP  = ZZ + "/simlog"
)

// Report says what the rewriter did and what it could not put behind a seam.
type Report struct {
	Packages          int            `json:"packages"`
	Files             int            `json:"files_rewritten"`
	SyncImports       int            `json:"sync_imports_swapped"`
	ExecImports       int            `json:"exec_imports_swapped"`
	LogImports        int            `json:"log_imports_swapped"`
	GoStmts           int            `json:"go_statements"`
	MapRanges         int            `json:"map_ranges"`
	MapKeysCalls      int            `json:"reflect_mapkeys_calls"`
	YieldSites        int            `json:"yield_sites"`
	Knobs             []string       `json:"knobs"`
	SyncUses          map[string]int `json:"sync_identifiers_used"`
	Unsimulated       []string       `json:"unsimulated_primitives"`
	UnseamedMapRanges []string       `json:"unseamed_map_ranges"`
	Nondeterminism    []string       `json:"other_nondeterminism_sources"`
	Sites             []string       `json:"sites"`
}

// YieldPackages get a Yield site before every statement.
var YieldPackages = map[string]bool{
	Module + "/internal/concurrent": true,
	Module + "/internal/plugin":     true,
	Module + "/internal/frame":      true,
	Module + "/internal/process":    true,
	Module + "/protocol/binary":     true,
	Module + "/wire":                true,
}

var simulatedSync = map[string]bool{"Mutex": true, "WaitGroup": true, "Pool": true, "RWMutex": true, "Once": true, "Locker": true}

// Rewrite loads every non-test package of the module rooted at dir (except
// internal/zzsim/** other than the regenerated corpus under internal/zzsim/gen)
// and rewrites the files in place.
func Rewrite(dir string, env []string) (*Report, error) {
	cfg := &packages.Config{
		Mode: packages.NeedName | packages.NeedFiles | packages.NeedCompiledGoFiles | packages.NeedSyntax |
			packages.NeedTypes | packages.NeedTypesInfo | packages.NeedImports | packages.NeedTypesSizes,
		Dir:   dir,
		Env:   env,
		Tests: false,
	}
	pkgs, err := packages.Load(cfg, "./...")
	if err != nil {
		return nil, err
	}
	rep := &Report{SyncUses: map[string]int{}}
	var errs []string
	for _, p := range pkgs {
		for _, e := range p.Errors {
			errs = append(errs, e.Error())
		}
	}
	if len(errs) > 0 {
		return nil, fmt.Errorf("package load errors:\n%s", strings.Join(errs, "\n"))
	}
	sort.Slice(pkgs, func(i, j int) bool { return pkgs[i].PkgPath < pkgs[j].PkgPath })
	for _, p := range pkgs {
		if strings.HasPrefix(p.PkgPath, ZZ) && !strings.HasPrefix(p.PkgPath, ZZ+"/gen") {
			continue
		}
		rep.Packages++
		for i, f := range p.Syntax {
			name := p.CompiledGoFiles[i]
			if strings.HasSuffix(name, "_test.go") {
				continue
			}
			changed, err := rewriteFile(p, f, name, dir, rep)
			if err != nil {
				return nil, fmt.Errorf("%s: %v", name, err)
			}
			if changed {
				stripComments(f)
				var buf bytes.Buffer
				if err := format.Node(&buf, p.Fset, f); err != nil {
					return nil, fmt.Errorf("%s: format: %v", name, err)
				}
				if err := os.WriteFile(name, buf.Bytes(), 0644); err != nil {
					return nil, err
				}
				rep.Files++
			}
		}
		// knob: package-level `var _fastPathFrameSize int64` in internal/frame
		if p.PkgPath == Module+"/internal/frame" {
			if obj := p.Types.Scope().Lookup("_fastPathFrameSize"); obj != nil {
				if v, ok := obj.(*types.Var); ok && types.Identical(v.Type(), types.Typ[types.Int64]) {
					src := "package frame\n\nimport \"" + simrtP + "\"\n\n" +
						"func init() {\n\tdef := _fastPathFrameSize\n\tsimrt.RegisterKnob(\"frame.fastPathFrameSize\", def, func(v int64) { _fastPathFrameSize = v })\n}\n"
					if err := os.WriteFile(filepath.Join(filepath.Dir(p.CompiledGoFiles[0]), "zz_knob.go"), []byte(src), 0644); err != nil {
						return nil, err
					}
					rep.Knobs = append(rep.Knobs, "frame.fastPathFrameSize")
				}
			}
		}
	}
	for k, n := range rep.SyncUses {
		if !simulatedSync[k] {
			rep.Unsimulated = append(rep.Unsimulated, fmt.Sprintf("sync.%s x%d", k, n))
		}
	}
	sort.Strings(rep.Unsimulated)
	sort.Strings(rep.Sites)
	return rep, nil
}

type rewriter struct {
	p        *packages.Package
	f        *ast.File
	rel      string
	rep      *Report
	needRT   bool
	changed  bool
	yieldPkg bool
	goN      int
}

func rewriteFile(p *packages.Package, f *ast.File, name, root string, rep *Report) (bool, error) {
	rel, _ := filepath.Rel(root, name)
	r := &rewriter{p: p, f: f, rel: rel, rep: rep, yieldPkg: YieldPackages[p.PkgPath]}

	// 1. import swaps
	usesFatal := false
	ast.Inspect(f, func(n ast.Node) bool {
		sel, ok := n.(*ast.SelectorExpr)
		if !ok {
			return true
		}
		id, ok := sel.X.(*ast.Ident)
		if !ok {
			return true
		}
		pn, ok := p.TypesInfo.Uses[id].(*types.PkgName)
		if !ok {
			return true
		}
		switch pn.Imported().Path() {
		case "log":
			if strings.HasPrefix(sel.Sel.Name, "Fatal") {
				usesFatal = true
			}
		case "sync":
			rep.SyncUses[sel.Sel.Name]++
		case "math/rand", "math/rand/v2", "crypto/rand":
			rep.Nondeterminism = append(rep.Nondeterminism, fmt.Sprintf("%s: %s.%s", r.pos(sel.Pos()), pn.Imported().Path(), sel.Sel.Name))
		case "time":
			switch sel.Sel.Name {
			case "Now", "Since", "Sleep", "After", "Tick", "NewTimer", "NewTicker", "AfterFunc", "Until":
				rep.Nondeterminism = append(rep.Nondeterminism, fmt.Sprintf("%s: time.%s", r.pos(sel.Pos()), sel.Sel.Name))
			}
		case "reflect":
			if sel.Sel.Name == "MapRange" {
				rep.UnseamedMapRanges = append(rep.UnseamedMapRanges, r.pos(sel.Pos())+": reflect MapRange")
			}
		}
		return true
	})
	for _, imp := range f.Imports {
		path, _ := strconv.Unquote(imp.Path.Value)
		var to, local string
		switch path {
		case "sync":
			to, local = simsyncP, "sync"
			rep.SyncImports++
		case "os/exec":
			to, local = simexecP, "exec"
			rep.ExecImports++
		case "log":
			if !usesFatal {
				continue
			}
			to, local = simlogP, "log"
			rep.LogImports++
		default:
			continue
		}
		imp.Path.Value = strconv.Quote(to)
		if imp.Name == nil {
			imp.Name = ast.NewIdent(local)
		}
		r.changed = true
	}

	// 1b. the plugin library's default channel: os.Stdin / os.Stdout, where they are used as an
	// io.Reader / io.Writer, are the standard streams of the simulated process
	if p.PkgPath == Module+"/cmd/thriftbreak" {
		r.osExit()
	}
	if p.PkgPath == Module+"/plugin" {
		r.stdio()
	}

	// 2. statements
	for _, d := range f.Decls {
		fd, ok := d.(*ast.FuncDecl)
		if !ok || fd.Body == nil {
			continue
		}
		r.block(fd.Body)
	}
	// function literals at package level (var x = func(){...})
	for _, d := range f.Decls {
		if gd, ok := d.(*ast.GenDecl); ok {
			ast.Inspect(gd, func(n ast.Node) bool {
				if fl, ok := n.(*ast.FuncLit); ok {
					r.block(fl.Body)
					return false
				}
				return true
			})
		}
	}

	if r.needRT {
		r.addImport("simrt", simrtP)
		r.changed = true
	}
	return r.changed, nil
}

// stdio replaces os.Stdin / os.Stdout by simrt.ProcStdin() / simrt.ProcStdout() wherever the
// value goes into a place of interface type (assignment to an interface variable, argument
// for an interface parameter, declaration with an interface type).
func (r *rewriter) stdio() {
	std := func(e ast.Expr) string {
		sel, ok := e.(*ast.SelectorExpr)
		if !ok {
			return ""
		}
		id, ok := sel.X.(*ast.Ident)
		if !ok {
			return ""
		}
		pn, ok := r.p.TypesInfo.Uses[id].(*types.PkgName)
		if !ok || pn.Imported().Path() != "os" {
			return ""
		}
		switch sel.Sel.Name {
		case "Stdin":
			return "ProcStdin"
		case "Stdout":
			return "ProcStdout"
		}
		return ""
	}
	isIface := func(t types.Type) bool {
		if t == nil {
			return false
		}
		_, ok := t.Underlying().(*types.Interface)
		return ok
	}
	swapped, osName := false, "os"
	swap := func(e *ast.Expr, to types.Type) {
		if fn := std(*e); fn != "" && isIface(to) {
			r.rep.Sites = append(r.rep.Sites, fmt.Sprintf("%s: os.%s -> simrt.%s()", r.pos((*e).Pos()), (*e).(*ast.SelectorExpr).Sel.Name, fn))
			osName = (*e).(*ast.SelectorExpr).X.(*ast.Ident).Name
			*e = rtCall(fn)
			swapped = true
			r.needRT = true
		}
	}
	ast.Inspect(r.f, func(n ast.Node) bool {
		switch v := n.(type) {
		case *ast.AssignStmt:
			if v.Tok == token.ASSIGN && len(v.Lhs) == len(v.Rhs) {
				for i := range v.Rhs {
					swap(&v.Rhs[i], r.p.TypesInfo.TypeOf(v.Lhs[i]))
				}
			}
		case *ast.ValueSpec:
			if v.Type != nil && len(v.Names) == len(v.Values) {
				for i := range v.Values {
					swap(&v.Values[i], r.p.TypesInfo.TypeOf(v.Type))
				}
			}
		case *ast.CallExpr:
			if sig, ok := r.p.TypesInfo.TypeOf(v.Fun).(*types.Signature); ok && !sig.Variadic() && sig.Params().Len() == len(v.Args) {
				for i := range v.Args {
					swap(&v.Args[i], sig.Params().At(i).Type())
				}
			}
		}
		return true
	})
	if swapped {
		// keep the os import in use whatever else the file does with it
		r.f.Decls = append(r.f.Decls, &ast.GenDecl{Tok: token.VAR, Specs: []ast.Spec{&ast.ValueSpec{
			Names: []*ast.Ident{ast.NewIdent("_")}, Values: []ast.Expr{&ast.SelectorExpr{X: ast.NewIdent(osName), Sel: ast.NewIdent("Stdin")}}}}})
	}
}

// osExit replaces calls of os.Exit by simrt.ProcExit: the end of the (simulated) process with
// that status, where a world is watching; the real os.Exit otherwise.
func (r *rewriter) osExit() {
	ast.Inspect(r.f, func(n ast.Node) bool {
		call, ok := n.(*ast.CallExpr)
		if !ok {
			return true
		}
		sel, ok := call.Fun.(*ast.SelectorExpr)
		if !ok || sel.Sel.Name != "Exit" {
			return true
		}
		id, ok := sel.X.(*ast.Ident)
		if !ok {
			return true
		}
		pn, ok := r.p.TypesInfo.Uses[id].(*types.PkgName)
		if !ok || pn.Imported().Path() != "os" {
			return true
		}
		r.rep.Sites = append(r.rep.Sites, fmt.Sprintf("%s: os.Exit -> simrt.ProcExit", r.pos(call.Pos())))
		call.Fun = &ast.SelectorExpr{X: ast.NewIdent("simrt"), Sel: ast.NewIdent("ProcExit")}
		r.needRT = true
		// keep the os import in use whatever else the file does with it
		r.f.Decls = append(r.f.Decls, &ast.GenDecl{Tok: token.VAR, Specs: []ast.Spec{&ast.ValueSpec{
			Names: []*ast.Ident{ast.NewIdent("_")}, Values: []ast.Expr{&ast.SelectorExpr{X: ast.NewIdent(id.Name), Sel: ast.NewIdent("Stdin")}}}}})
		return true
	})
}

func (r *rewriter) pos(p token.Pos) string {
	pp := r.p.Fset.Position(p)
	return fmt.Sprintf("%s:%d", r.rel, pp.Line)
}

func (r *rewriter) addImport(name, path string) {
	for _, imp := range r.f.Imports {
		if p, _ := strconv.Unquote(imp.Path.Value); p == path {
			return
		}
	}
	spec := &ast.ImportSpec{Name: ast.NewIdent(name), Path: &ast.BasicLit{Kind: token.STRING, Value: strconv.Quote(path)}}
	// put it into the first import decl, or create one
	for _, d := range r.f.Decls {
		if gd, ok := d.(*ast.GenDecl); ok && gd.Tok == token.IMPORT {
			gd.Specs = append(gd.Specs, spec)
			if !gd.Lparen.IsValid() {
				gd.Lparen = gd.Pos()
				gd.Rparen = gd.End()
			}
			r.f.Imports = append(r.f.Imports, spec)
			return
		}
	}
	gd := &ast.GenDecl{Tok: token.IMPORT, Specs: []ast.Spec{spec}}
	r.f.Decls = append([]ast.Decl{gd}, r.f.Decls...)
	r.f.Imports = append(r.f.Imports, spec)
}

func rtCall(fn string, args ...ast.Expr) *ast.CallExpr {
	return &ast.CallExpr{Fun: &ast.SelectorExpr{X: ast.NewIdent("simrt"), Sel: ast.NewIdent(fn)}, Args: args}
}

func strLit(s string) ast.Expr { return &ast.BasicLit{Kind: token.STRING, Value: strconv.Quote(s)} }

// block rewrites the statements of a block in place.
func (r *rewriter) block(b *ast.BlockStmt) {
	if b == nil {
		return
	}
	b.List = r.stmts(b.List)
}

func (r *rewriter) stmts(list []ast.Stmt) []ast.Stmt {
	var out []ast.Stmt
	for _, st := range list {
		if r.yieldPkg {
			if _, isDecl := st.(*ast.DeclStmt); !isDecl {
				out = append(out, &ast.ExprStmt{X: rtCall("Yield", strLit(r.pos(st.Pos())))})
				r.rep.YieldSites++
				r.needRT = true
			}
		}
		out = append(out, r.stmt(st))
	}
	return out
}

func (r *rewriter) stmt(st ast.Stmt) ast.Stmt {
	switch s := st.(type) {
	case *ast.BlockStmt:
		r.block(s)
	case *ast.IfStmt:
		r.exprsIn(s.Init)
		r.expr(s.Cond)
		r.block(s.Body)
		if s.Else != nil {
			s.Else = r.stmt(s.Else)
		}
	case *ast.ForStmt:
		r.exprsIn(s.Init)
		r.expr(s.Cond)
		r.exprsIn(s.Post)
		r.block(s.Body)
	case *ast.RangeStmt:
		r.expr(s.X)
		if tv, ok := r.p.TypesInfo.Types[s.X]; ok {
			if _, isMap := tv.Type.Underlying().(*types.Map); isMap {
				site := r.pos(s.Pos())
				s.X = rtCall("MapSeq", s.X, strLit(site))
				r.rep.MapRanges++
				r.rep.Sites = append(r.rep.Sites, "maprange "+site)
				r.needRT = true
			} else if tp, isTP := tv.Type.(*types.TypeParam); isTP {
				r.rep.UnseamedMapRanges = append(r.rep.UnseamedMapRanges, r.pos(s.Pos())+": range over type parameter "+tp.String())
			}
		}
		r.block(s.Body)
	case *ast.SwitchStmt:
		r.exprsIn(s.Init)
		r.expr(s.Tag)
		r.caseBodies(s.Body)
	case *ast.TypeSwitchStmt:
		r.exprsIn(s.Init)
		r.exprsIn(s.Assign)
		r.caseBodies(s.Body)
	case *ast.SelectStmt:
		r.rep.Nondeterminism = append(r.rep.Nondeterminism, r.pos(s.Pos())+": select statement")
		for _, c := range s.Body.List {
			cc := c.(*ast.CommClause)
			cc.Body = r.stmts(cc.Body)
		}
	case *ast.LabeledStmt:
		s.Stmt = r.stmt(s.Stmt)
	case *ast.GoStmt:
		r.exprsIn(&ast.ExprStmt{X: s.Call})
		return r.goStmt(s)
	case *ast.SendStmt:
		r.rep.Nondeterminism = append(r.rep.Nondeterminism, r.pos(s.Pos())+": channel send")
	default:
		r.exprsIn(st)
	}
	return st
}

func (r *rewriter) caseBodies(b *ast.BlockStmt) {
	for _, c := range b.List {
		cc := c.(*ast.CaseClause)
		for _, e := range cc.List {
			r.expr(e)
		}
		cc.Body = r.stmts(cc.Body)
	}
}

// exprsIn visits expressions of a simple statement: function literals get
// their bodies rewritten and reflect MapKeys calls are wrapped.
func (r *rewriter) exprsIn(n ast.Node) {
	if n == nil || isNilNode(n) {
		return
	}
	r.walk(n)
}

func isNilNode(n ast.Node) bool {
	switch v := n.(type) {
	case ast.Stmt:
		return v == nil
	case ast.Expr:
		return v == nil
	}
	return false
}

func (r *rewriter) expr(e ast.Expr) {
	if e == nil {
		return
	}
	r.walk(e)
}

func (r *rewriter) walk(n ast.Node) {
	ast.Inspect(n, func(n ast.Node) bool {
		switch v := n.(type) {
		case *ast.FuncLit:
			r.block(v.Body)
			return false
		case *ast.UnaryExpr:
			if v.Op == token.ARROW {
				r.rep.Nondeterminism = append(r.rep.Nondeterminism, r.pos(v.Pos())+": channel receive")
			}
		case *ast.CallExpr:
			// x.MapKeys() where x is reflect.Value
			if sel, ok := v.Fun.(*ast.SelectorExpr); ok && sel.Sel.Name == "MapKeys" && len(v.Args) == 0 {
				if tv, ok := r.p.TypesInfo.Types[sel.X]; ok && tv.Type.String() == "reflect.Value" {
					// rewrite in place: turn `x.MapKeys()` into simrt.SortedMapKeys(x.MapKeys(), site)
					inner := &ast.CallExpr{Fun: v.Fun}
					site := r.pos(v.Pos())
					v.Fun = &ast.SelectorExpr{X: ast.NewIdent("simrt"), Sel: ast.NewIdent("SortedMapKeys")}
					v.Args = []ast.Expr{inner, strLit(site)}
					r.rep.MapKeysCalls++
					r.rep.Sites = append(r.rep.Sites, "mapkeys "+site)
					r.needRT = true
					r.expr(sel.X)
					return false
				}
			}
		}
		return true
	})
}

// goStmt turns `go f(a, b)` into
//
//	{ zzf := f; zza0 := a; zza1 := b; simrt.Go(func() { zzf(zza0, zza1) }) }
//
// which keeps Go's rule that the function value and arguments are evaluated
// by the spawning goroutine.
func (r *rewriter) goStmt(g *ast.GoStmt) ast.Stmt {
	r.goN++
	r.rep.GoStmts++
	r.rep.Sites = append(r.rep.Sites, "go "+r.pos(g.Pos()))
	r.needRT = true
	call := g.Call
	var pre []ast.Stmt
	define := func(name string, e ast.Expr) *ast.Ident {
		id := ast.NewIdent(name)
		pre = append(pre, &ast.AssignStmt{Lhs: []ast.Expr{id}, Tok: token.DEFINE, Rhs: []ast.Expr{e}})
		return id
	}
	prefix := fmt.Sprintf("zzg%d", r.goN)
	var fun ast.Expr
	// Builtins and conversions cannot be bound to a variable; leave them called directly.
	if tv, ok := r.p.TypesInfo.Types[call.Fun]; ok && (tv.IsBuiltin() || tv.IsType()) {
		fun = call.Fun
	} else {
		fun = define(prefix+"f", call.Fun)
	}
	args := make([]ast.Expr, len(call.Args))
	for i, a := range call.Args {
		// untyped constants keep their place (binding them would fix a default type)
		if tv, ok := r.p.TypesInfo.Types[a]; ok && tv.Value != nil {
			args[i] = a
			continue
		}
		args[i] = define(fmt.Sprintf("%sa%d", prefix, i), a)
	}
	inner := &ast.CallExpr{Fun: fun, Args: args, Ellipsis: call.Ellipsis}
	if call.Ellipsis.IsValid() {
		inner.Ellipsis = 1
	}
	lit := &ast.FuncLit{
		Type: &ast.FuncType{Params: &ast.FieldList{}},
		Body: &ast.BlockStmt{List: []ast.Stmt{&ast.ExprStmt{X: inner}}},
	}
	pre = append(pre, &ast.ExprStmt{X: rtCall("Go", lit)})
	return &ast.BlockStmt{List: pre}
}

// stripComments drops ordinary comments from a file about to be re-printed
// (inserted nodes carry no positions, and go/printer places free-floating
// comments by position). Build constraints and compiler directives stay.
func stripComments(f *ast.File) {
	var keep []*ast.CommentGroup
	for _, cg := range f.Comments {
		if cg.End() < f.Package {
			keep = append(keep, cg)
			continue
		}
		var lines []*ast.Comment
		for _, c := range cg.List {
			if strings.HasPrefix(c.Text, "//go:") || strings.HasPrefix(c.Text, "//line ") || strings.HasPrefix(c.Text, "//export ") {
				lines = append(lines, c)
			}
		}
		if len(lines) > 0 {
			cg.List = lines
			keep = append(keep, cg)
		}
	}
	f.Comments = keep
	ast.Inspect(f, func(n ast.Node) bool {
		switch v := n.(type) {
		case *ast.FuncDecl:
			v.Doc = filterDoc(v.Doc, keep)
		case *ast.GenDecl:
			v.Doc = filterDoc(v.Doc, keep)
		case *ast.Field:
			v.Doc, v.Comment = nil, nil
		case *ast.ValueSpec:
			v.Doc, v.Comment = nil, nil
		case *ast.TypeSpec:
			v.Doc, v.Comment = nil, nil
		case *ast.ImportSpec:
			v.Doc, v.Comment = nil, nil
		}
		return true
	})
}

func filterDoc(d *ast.CommentGroup, keep []*ast.CommentGroup) *ast.CommentGroup {
	for _, k := range keep {
		if k == d {
			return d
		}
	}
	return nil
}
