package zzmain

import "go.uber.org/thriftrw/internal/zzsim/world/orderw"

func init() {
	Engines["C07"] = Engine{Run: orderw.RunC07}
	Engines["C10"] = Engine{Run: orderw.RunC10}
	Engines["C20"] = Engine{Run: orderw.RunC20}
}
