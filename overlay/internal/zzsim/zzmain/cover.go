package zzmain

import (
	"os"
	"runtime/coverage"
)

// writeCoverage dumps statement counters when the worker was built with -cover
// and VSIM_COVERDIR is set (development aid; see tools/coverage.sh).
func writeCoverage() {
	dir := os.Getenv("VSIM_COVERDIR")
	if dir == "" {
		return
	}
	_ = os.MkdirAll(dir, 0755)
	if err := coverage.WriteMetaDir(dir); err != nil {
		println("coverage meta:", err.Error())
	}
	if err := coverage.WriteCountersDir(dir); err != nil {
		println("coverage counters:", err.Error())
	}
}
