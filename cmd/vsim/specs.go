package main

var realPlugin = []string{"main.do (CLI)", "compile", "idl", "ast", "gen", "protocol/binary", "wire", "envelope", "internal/envelope", "internal/multiplex",
	"internal/frame", "internal/process", "internal/plugin", "internal/concurrent", "plugin (plugin.Main, generated handlers)", "plugin/api (generated)",
	"third party: go-flags, multierr, go.uber.org/atomic, text/template, go/format", "file system (private tmpfs directory per run, not stubbed)"}

var stubPlugin = []string{"os/exec.Cmd -> simexec.Cmd (simulated process table)", "OS pipes -> simulated 64KiB pipes (no loss/dup/reorder; chunking is a choice)",
	"plugin processes -> simulator tasks (scripted raw-pipe interpreter, or the real plugin.Main with a scripted generator)",
	"sync.Mutex/WaitGroup/Pool -> simulated (scheduler-decided)", "goroutine scheduling -> seeded single-baton scheduler", "Go map iteration order -> seeded permutation (MapSeq)", "log.Fatalf -> exit of the simulated process"}

var realWire = []string{"protocol/binary (Reader, StreamReader, StreamWriter, Writer, lazy lists, envelopes, responders, Protocol)", "wire", "protocol/stream", "envelope", "internal/envelope", "internal/multiplex", "regenerated code of the schema corpus (gen/internal/tests/thrift, plugin/api.thrift, verif/schemas)"}

var stubWire = []string{"caller-supplied io.Reader / io.Seeker / io.ReaderAt / io.Writer -> simio (delivery schedule and faults are choices; stays inside the io contracts)", "sync.Pool -> simulated pool (reuse order, drops and New calls are choices; double-Put and write-after-Put detectors)", "Go map iteration order -> seeded permutation", "peer process -> simulator task over a simulated pipe (client/server runs)"}

var realOrder = []string{"compile (loader, linker, scopes, constants, services)", "idl (parser)", "ast", "gen (for C10)", "internal/compare, internal/git, cmd/thriftbreak (for C20)", "third party: go-git (C20), text/template, go/format"}

var stubOrder = []string{"Go map iteration order -> seeded permutation at every range-over-map site of the code under test (MapSeq) and at reflect MapKeys", "file system -> in-memory compile.FS (C07) / private tmpfs directory (C10, C20)"}

var specs = map[string]Spec{
	"C18": {
		Prop: "C18", Engine: "wire-world", Level: "exploration", Binary: "root", Corpus: true, Race: true,
		Quick:    Tier{Count: 90000, BudgetS: 40, RandomSchemas: 8},
		Thorough: Tier{Count: 12000000, BudgetS: 900, RaceCount: 160000, RandomSchemas: 24},
		Rule: "three run kinds drawn from the seed, each a set of simulated caller tasks under a seeded scheduler (run-to-completion, random walk with switch probability 0.1/0.3/0.6, PCT-style priorities; optional statement-level preemption inside internal/frame, internal/concurrent, internal/plugin): (codec) 2-8 (thorough 2-24) tasks each performing one of Encode, Decode+force, EncodeEnveloped, DecodeEnveloped, ReadRequest+WriteResponse and the four generated-code paths on its own random value through simulated readers/writers that yield at every call, over simulated sync.Pools whose reuse order, drops and New calls are choices, compared with the same operation executed alone; pool invariants (no double Put, no write between Put and the next Get) checked at every call; (frame) 2-8 client tasks x 1-3 Sends with unique payloads on one frame.Client over simulated pipes to a frame.Server task answering payload+counter, optionally exiting mid-run: every caller gets its own payload, and the history stamped with global event sequence numbers is linearizable (porcupine) against 'state = requests served'; (fanout) MultiServiceGenerator.Generate / MultiHandle.Close / concurrent.Range over 1-6 in-process generators that yield inside their calls, return disjoint or colliding file sets and fail at chosen indexes: exact union on success, collision reported, every injected error present, each element visited once. Thorough adds the race tier: the same runs in a -race build whose scheduler hands the baton over through raw pipe syscalls the detector cannot see. " +
			"Every run is non-trivial; distinct = distinct choice lists.",
		RealComp: append([]string{"internal/frame (Client, Server, Reader, Writer)", "internal/concurrent", "internal/plugin (MultiServiceGenerator, MultiHandle)"}, realWire...), StubComp: stubWire,
		Assume: []string{"without the race tier a missing lock around code that contains no seam shows only through statement-granularity interleavings and their observable effects; the race tier (thorough) decides 'with no data race' proper",
			"porcupine 'Unknown' (timeout) is inconclusive and never reported", "GOMAXPROCS, forced GCs and pool churn of the property's quantifier are replaced by the seeded scheduler and the simulated pool (any reuse order, drops)"},
	},
	"C20": {
		Prop: "C20", Engine: "order-world", Level: "exploration", Binary: "tb",
		Quick:    Tier{Count: 20000, BudgetS: 45},
		Thorough: Tier{Count: 1500000, BudgetS: 1200},
		Rule: "one run = a seeded base program (1-3 files in nested directories: services, structs/unions/exceptions, typedefs, enums, constants, includes) and an edit script of 0-5 edits drawn from 5 breaking kinds (remove service, remove method, add required field, optional to required, change a field's declared type) and 14 compatible kinds (add optional field / method / service / type / constant / include / file, delete struct / file, reorder definitions / fields, change default, rename field, required to optional), every version compilable; both versions are committed to a scratch git repository (go-git, fixed author and time) and cmd/thriftbreak's run() is executed N times (4 quick, 12 thorough), alternating readable and JSON output, each under another seeded map-iteration order of internal/compare and compile; oracles: reported set equals the reference model's (progen.Breaking), attributed to the right file, error iff diagnostics, nothing for identical or compatible versions, same set in every schedule and output mode. " +
			"Every run is non-trivial; distinct = distinct choice lists.",
		RealComp: realOrder, StubComp: append([]string{"git repository -> real go-git repository on a private tmpfs directory, built by the harness with a fixed commit time"}, stubOrder...),
		Assume: []string{"file renames are not generated (go-git's rename detection changes what 'the same file' means); a script contains at most one of add-file / delete-file",
			"a type change always changes the bare type name (the linter compares names without include qualifier)", "edits that would leave HEAD uncompilable are rolled back: the tool then exits with a compile error, which is outside the property",
			"a reported line stands for an expected diagnostic if it is attributed to the expected file and mentions every expected name as a word (maximum bipartite matching); wording and quoting of messages are not compared"},
	},
	"C10": {
		Prop: "C10", Engine: "order-world", Level: "exploration", Binary: "root",
		Quick:    Tier{Count: 5000, BudgetS: 135},
		Thorough: Tier{Count: 200000, BudgetS: 1200},
		Rule: "one run = one (program, option set): seeded program of 1-5 files (many includes incl. unused ones, same names in several files, file names equal to packages the generated code imports (fmt, errors, strings, wire, stream, zapcore, ...), recursive types, constants of list/set/map type, defaults, services with inheritance across files) x options (no-recurse, no-types, no-constants, no-service-helpers, no-embed-idl, no-zap, no-version-check, enum-text-marshal-strict, output-file), compiled and generated N times (6 quick, 16 thorough) into a fresh directory, each time under another seeded map-iteration order at every range-over-map site of compile/ and gen/ (sorted, reverse, random, rotated, one-key-first) with an in-process capturing service generator; oracles: same outcome, same set of paths, same sha256 of every file, same plugin request after renumbering module ids by Thrift path and service ids by (module path, Thrift name); root lists compared as multisets. " +
			"Every run is non-trivial; distinct = distinct choice lists.",
		RealComp: realOrder, StubComp: stubOrder,
		Assume: []string{"map iteration inside third-party code is not seamed (text/template sorts map keys; go/format has none that affects output)",
			"the order of rootServices/rootModules follows the same arbitrary module walk that numbers the ids and is compared as a multiset (an order-only difference is counted as an observation)",
			"cross-process determinism is covered through the seam: the only per-process nondeterminism of the generator is map iteration order"},
	},
	"C07": {
		Prop: "C07", Engine: "order-world", Level: "exploration", Binary: "root",
		Quick:    Tier{Count: 200000, BudgetS: 60},
		Thorough: Tier{Count: 3000000, BudgetS: 900},
		Rule: "one run = one seeded multi-file program (1-4 files in nested directories; diamond and cyclic includes; typedef chains, also through struct fields and containers and back to the struct itself; forward and backward references; include-qualified references; local definitions with dotted names, some shadowing an included name; constants of primitive, enum, typedef, list, set and map type referring to literals, other constants and enum items; field defaults; services with extends across files; 15% carry one unresolvable or ill-typed reference) compiled under N schedules (8 quick, 24 thorough): schedule 0 sorted and 1 reverse map order, the rest random / rotated / one-key-first orders at every range-over-map site of compile (the linker's five loops, Module.Walk, service linking), every second one also with the definitions of every file permuted; oracles: same outcome and same canonical module-graph dump in all schedules; dump equals the reference model's (progen/model.go); one Module object per file; no nil typedef root or unresolved node. " +
			"Every run is non-trivial; distinct = distinct choice lists.",
		RealComp: realOrder, StubComp: stubOrder,
		Assume: []string{"ambiguous programs are not generated", "constant references are generated type-compatible (same kind, or int to double); cast failures other than the injected ones are not explored",
			"the linker's resolution order is the iteration order of its map ranges (Types, Constants, Services, Includes), which the seam drives; no separate pre-link hook is needed"},
	},
	"C04": {
		Prop: "C04", Engine: "wire-world", Level: "exploration", Binary: "root", Corpus: true,
		Quick:    Tier{Count: 1000000, BudgetS: 80, RandomSchemas: 8},
		Thorough: Tier{Count: 32000000, BudgetS: 900, RandomSchemas: 24},
		Rule: "one run = one struct-like type of the regenerated corpus (all types of gen/internal/tests/thrift and plugin/api.thrift plus 8 (thorough 24) random programs drawn from VERIF_SEED by the harness's program generator - structs, unions, exceptions, typedef chains, enums, containers, defaults, service argument and result structs - all regenerated from the tree's own templates; a package that does not compile is dropped and listed) and either (deserialization) a byte string - the encoding of a valid Go value built by reflection, optionally put through 1-3 schema-evolution edits on the value tree (add / retype / drop / duplicate / renumber field, change a container's element type, recursively) or 1-3 byte-level mutations - run through FromWire(Decode(b)) and through T.Decode(stream reader) under 4 (thorough 8) seeded delivery schedules incl. truncation and I/O errors; or (serialization) a Go value, valid or damaged (required pointer nil, extra union member, nil element in a container, nil container), run through Encode(stream writer) and through ToWire+Encode. " +
			"Every run is non-trivial; distinct = distinct choice lists. Per-type hit counts are in coverage.counts.",
		RealComp: realWire, StubComp: stubWire,
		Assume: []string{"declared container counts above 32768 in mutated inputs are capped by the harness so that the pre-sizing weakness described by C13 cannot exhaust memory here; nothing about it is reported",
			"values are compared through their ToWire trees (sets and maps order-insensitive, doubles by bits)", "nothing is asserted about which inputs must be rejected (C01/C05)"},
	},
	"C12": {
		Prop: "C12", Engine: "wire-world", Level: "exploration", Binary: "root",
		Quick:    Tier{Count: 160000, BudgetS: 40},
		Thorough: Tier{Count: 16000000, BudgetS: 900},
		Rule: "four run kinds drawn from the seed: (roundtrip) envelope (name 1..65536 bytes incl. non-UTF-8 and Service:method, type 0..127, seqid at int32 boundaries, arbitrary struct body) encoded by EncodeEnveloped / WriteLegacyEnveloped / the streaming writers and compared byte for byte with the harness encoder, then decoded by DecodeEnveloped or the streaming reader under a seeded delivery schedule with optional truncation / I/O error; (clientserver) request in one of three framings served through DecodeRequest or ReadRequest over a simulated reader, reply written through the returned responder and decoded by the harness as a client of that framing, incl. requests of the wrong message type; (pipe) the same with a client task writing the request in seeded chunks into a simulated pipe while a server task runs ReadRequest on the live pipe and replies over a second pipe; (agreement) arbitrary bytes (valid, 1-3 mutations, random) through DecodeRequest and through ReadRequest under 4 (thorough 8) seeded delivery/fault schedules. " +
			"Every run is non-trivial; distinct = distinct choice lists.",
		RealComp: realWire, StubComp: stubWire,
		Assume: []string{"legacy envelope names stay below 2^24 bytes (implied by the first-byte classification)", "a stream that ends early is compared with full delivery of that shorter input, because the framing rules depend on the input's length",
			"an injected I/O error within the first two bytes (the framing peek) may be reported or not; nothing is demanded there"},
	},
	"C03": {
		Prop: "C03", Engine: "wire-world", Level: "exploration", Binary: "root",
		Quick:    Tier{Count: 400000, BudgetS: 40},
		Thorough: Tier{Count: 40000000, BudgetS: 900},
		Rule: "one run = one (wire type, byte string) drawn from the seed (valid encodings of random values incl. >1MiB binaries at low rate, 1-3 format-aware mutations: bit/byte flips, type-byte swaps, length/count edits incl. -1 and 2^31-1, id edits, truncation, insert/delete/duplicate; trailing bytes; random strings; invalid requested types) decoded by the random-access reader over a full-delivery ReaderAt with every lazy container forced (baseline), then re-decoded/skipped under D seeded delivery schedules (6 quick, 12 thorough; every third one faulted): reader kind {random-access, harness decoder over stream.Reader primitives, Skip} x style {full, 1-byte, random chunks, stutter with zero-length reads, first-byte} x EOF-with-data x seekable x {truncation, I/O error at an offset}. " +
			"Every run is non-trivial (the decoders ran); distinct = distinct choice lists.",
		RealComp: realWire, StubComp: stubWire,
		Assume: []string{"lazy containers are forced exactly once and closed, as the API requires", "nothing is required of Skip on a seekable reader that was cut short (seeking past the end is legal)", "call budget 1024*len+65536 reader calls stands for 'terminates'"},
	},
	"C17": {
		Prop: "C17", Engine: "plugin-world", Level: "exploration", Binary: "root",
		Quick:    Tier{Count: 6000, BudgetS: 45},
		Thorough: Tier{Count: 600000, BudgetS: 1200},
		Rule: "seeded scenarios: random multi-file program in nested directories x thrift-root layout (automatic, natural, thrift dir, sandbox root, a root that excludes a file) x options (--no-recurse, --output-file) x optional failing module (reserved field name, bad go.name, unresolved reference) at a random position x 0-3 plugins (scripted or real plugin.Main) whose generate replies carry paths of 12 shapes (relative, nested, absolute, '..' component, '..' inside a name, '.', repeated separators, equal to a core path / another plugin's path, literally or after cleaning) and whose protocol steps carry C16's fault catalogue; oracle over sha256 snapshots of the sandbox (out/, thrift/, canary/) before and after. " +
			"Non-trivial: at least one plugin process started; distinct = distinct choice lists.",
		RealComp: realPlugin, StubComp: stubPlugin,
		Assume: []string{"no disk faults are injected (the property's failure list is compile/generate/plugin failures)", "a failure that arises only while closing plugins after a successful generation is outside the property's list and not checked",
			"one plugin naming the same file twice under two spellings is not generated (the property speaks of two sources)", "no symlinks inside the output directory"},
	},
	"C16": {
		Prop: "C16", Engine: "plugin-world", Level: "fault_enumeration", Binary: "root", Race: true,
		Quick:    Tier{Count: 2500, Floor: true, BudgetS: 45},
		Thorough: Tier{Count: 400000, Floor: true, BudgetS: 1200, Fidelity: 3000, RaceCount: 24000},
		Rule: "systematic floor: 1 scripted plugin x 3 protocol steps x 13 reply actions, truncation at byte offsets 0..159 (mod frame length), whole and 1-byte writes, each with seeded chunking/interleaving; " +
			"seeded search: 0-3 plugins (scripted or real plugin.Main) with independent fault scripts, random programs, options, chunking, strategies, preemption, frame fast-path threshold. " +
			"A run is non-trivial if at least one plugin process was started; distinct = distinct recorded choice lists among those.",
		RealComp: realPlugin, StubComp: stubPlugin,
		Assume: []string{"plugins terminate: a script that leaves a partial frame always exits (a peer that stalls forever hangs any host)",
			"pipes are reliable byte streams (no loss, duplication or reordering)", "API_VERSION=4 and the method names are taken from plugin/api.thrift",
			"no disk faults are injected"},
	},
}
