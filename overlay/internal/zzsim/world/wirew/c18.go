package wirew

import (
	"bytes"
	"context"
	"encoding/binary"
	"errors"
	"fmt"
	"hash/fnv"
	"reflect"
	"sort"
	"strings"
	"time"

	"github.com/anishathalye/porcupine"

	"go.uber.org/thriftrw/internal/concurrent"
	"go.uber.org/thriftrw/internal/frame"
	iplugin "go.uber.org/thriftrw/internal/plugin"
	"go.uber.org/thriftrw/internal/zzsim/gen/registry"
	"go.uber.org/thriftrw/internal/zzsim/ref"
	"go.uber.org/thriftrw/internal/zzsim/refwire"
	"go.uber.org/thriftrw/internal/zzsim/simio"
	"go.uber.org/thriftrw/internal/zzsim/simrt"
	"go.uber.org/thriftrw/internal/zzsim/world"
	"go.uber.org/thriftrw/plugin/api"
	tbinary "go.uber.org/thriftrw/protocol/binary"
	"go.uber.org/thriftrw/protocol/stream"
	"go.uber.org/thriftrw/wire"
)

// codecOp is one codec operation on its own value; run returns a comparable
// description of the result.
type codecOp struct {
	name string
	run  func() string
}

func resultOf(f func() (string, error)) (out string) {
	defer func() {
		if r := recover(); r != nil {
			out = fmt.Sprintf("PANIC: %v", r)
		}
	}()
	s, err := f()
	if err != nil {
		return "ERR: " + err.Error()
	}
	return s
}

var fullPlan = simio.Plan{TruncAt: -1, ErrAt: -1}

// sharedBuf / sharedReader: one buffer and one binary.Reader shared by the operations of a run.
var (
	sharedBuf    *simio.GrowingReaderAt
	sharedReader valueReader
)

// valueReader is what binary.NewReader returns, whatever its concrete type.
type valueReader interface {
	ReadValue(t wire.Type, off int64) (wire.Value, int64, error)
}

func asValueReader[T any](x T) valueReader {
	if vr, ok := any(x).(valueReader); ok {
		return vr
	}
	return any(&x).(valueReader)
}

// forcedOp >= 0: every operation of the run is of this kind (the callers then contend for
// the same pools and meet the same code paths at the same time).
var forcedOp = -1

// genCodecOp draws an operation and its private input.
func genCodecOp() codecOp {
	nk := 17
	if len(registry.Types) == 0 {
		nk = 13
	}
	op := ch("c18.op", nk)
	if forcedOp >= 0 {
		op = forcedOp % nk
	}
	return genCodecOpKind(op)
}

func genCodecOpKind(op int) codecOp {
	switch op {
	case 8:
		// several callers decode their own records through ONE binary.Reader over a shared buffer
		t := genType()
		rec := ref.Encode(nil, genVal(t, 0, genOpts{maxDepth: 3}))
		if sharedBuf == nil {
			sharedBuf = &simio.GrowingReaderAt{}
			sharedReader = asValueReader(tbinary.NewReader(sharedBuf))
		}
		off := sharedBuf.Append(rec)
		rd := sharedReader
		return codecOp{"ReadValue through a shared Reader", func() string {
			return resultOf(func() (string, error) {
				w, end, err := rd.ReadValue(wire.Type(t), off)
				if err != nil {
					return "", err
				}
				v, err := refwire.Force(w)
				if err != nil {
					return "", fmt.Errorf("forcing the decoded value: %w", err)
				}
				return fmt.Sprintf("%d %x", end-off, ref.Encode(nil, v)), nil
			})
		}}
	case 12:
		// containers nested dozens of levels deep (around the depths at which other Thrift
		// libraries stop), decoded, walked, evaluated or skipped next to ordinary values
		depth := []int{30, 48, 60, 62, 63, 64, 65, 66, 70, 100}[ch("c18.deep-levels", 10)]
		// built from the inside out: list<i32> [5, 6], wrapped depth times
		b := []byte{ref.TI32, 0, 0, 0, 2, 0, 0, 0, 5, 0, 0, 0, 6}
		t := byte(ref.TList)
		// which kinds of container the levels are: lists only, lists and maps, all three, or
		// lists with one set somewhere
		mix := ch("c18.deep-mix", 4)
		theSet := ch("c18.deep-set-at", depth)
		for i := 0; i < depth; i++ {
			kind := 0
			switch mix {
			case 1:
				kind = 2 * ch("c18.deep-kind", 2)
			case 2:
				kind = ch("c18.deep-kind", 3)
			case 3:
				if i == theSet {
					kind = 1
				}
			}
			switch kind {
			case 0:
				b, t = append([]byte{t, 0, 0, 0, 1}, b...), ref.TList
			case 1:
				b, t = append([]byte{t, 0, 0, 0, 1}, b...), ref.TSet
			default:
				b, t = append([]byte{ref.TI8, t, 0, 0, 0, 1, 7}, b...), ref.TMap // map<i8, ...>: one entry under key 7
			}
		}
		how := ch("c18.deep-how", 3)
		plan := simio.Plan{TruncAt: -1, ErrAt: -1, Style: simio.Style(ch("c18.style", 3)), Seekable: ch("c18.seekable", 2) == 1}
		plan.SeekFails = plan.Seekable && ch("c18.seek-fails", 2) == 1 // a pipe behind an *os.File
		return codecOp{fmt.Sprintf("value nested %d levels deep (%s)", depth, []string{"Decode+force", "Decode+EvaluateValue", "Skip"}[how]), func() string {
			return resultOf(func() (string, error) {
				if how == 2 {
					o := stSkip(b, wire.Type(t), plan)
					if !o.ok {
						return "", errors.New(o.String())
					}
					return fmt.Sprintf("skipped %d", o.used), nil
				}
				w, err := tbinary.Default.Decode(simio.NewReaderAt(b, fullPlan), wire.Type(t))
				if err != nil {
					return "", err
				}
				if how == 1 {
					if err := wire.EvaluateValue(w); err != nil {
						return "", err
					}
					return "evaluated", nil
				}
				v, err := refwire.Force(w)
				if err != nil {
					return "", fmt.Errorf("forcing the decoded value: %w", err)
				}
				return fmt.Sprintf("%x", ref.Encode(nil, v)), nil
			})
		}}
	case 11:
		if p := map[bool]float64{false: 0.25, true: 0.8}[forcedOp >= 0]; !simrt.Flip("c18.large-binary", p) {
			return genCodecOpKind(1)
		}
		// a binary beyond the size up to which the reader allocates at once, held for a
		// while after the read returns: what was read stays what it was
		n := 1<<20 + 1 + ch("c18.large-extra", 4096)
		mul := byte(1 + 2*ch("c18.large-fill", 120))
		b := make([]byte, 4+n)
		binary.BigEndian.PutUint32(b, uint32(n))
		for i := 0; i < n; i += 64 {
			b[4+i] = byte(i/64) * mul
		}
		sum := func(p []byte) string {
			h := fnv.New64a()
			h.Write(p)
			return fmt.Sprintf("%d bytes, fnv %x", len(p), h.Sum64())
		}
		want := sum(b[4:])
		viaValue := ch("c18.large-via", 2) == 1
		hold := 1 + ch("c18.large-hold", 4)
		return codecOp{"large binary read and held", func() string {
			return resultOf(func() (string, error) {
				var got []byte
				if viaValue {
					w, err := tbinary.Default.Decode(simio.NewReaderAt(b, fullPlan), wire.TBinary)
					if err != nil {
						return "", err
					}
					got = w.GetBinary()
				} else {
					r, _ := simio.NewReader(b, simio.Plan{TruncAt: -1, ErrAt: -1})
					sr := tbinary.NewStreamReader(r)
					bs, err := sr.ReadBinary()
					sr.Close()
					if err != nil {
						return "", err
					}
					got = bs
				}
				for i := 0; i < hold; i++ {
					simrt.YieldNow()
				}
				if s := sum(got); s != want {
					return fmt.Sprintf("read %s, the input holds %s", s, want), nil
				}
				return want, nil
			})
		}}
	case 10:
		// a decoded value is written out more than once (forwarded, retried after a failed
		// write) and read afterwards: encoding does not use it up
		t := genType()
		b := ref.Encode(nil, genVal(t, 0, genOpts{maxDepth: 3}))
		n := 1 + ch("c18.re-encodes", 3)
		failFirst := simrt.Flip("c18.first-write-fails", 0.3)
		return codecOp{"Decode, Encode several times, force", func() string {
			return resultOf(func() (string, error) {
				w, err := tbinary.Default.Decode(simio.NewReaderAt(b, fullPlan), wire.Type(t))
				if err != nil {
					return "", err
				}
				var outs []string
				for i := 0; i < n; i++ {
					out := simio.NewWriter(-1)
					if i == 0 && failFirst {
						out = simio.NewWriter(len(b) / 2)
					}
					if err := tbinary.Default.Encode(w, out); err != nil {
						outs = append(outs, "failed")
						continue
					}
					outs = append(outs, fmt.Sprintf("%x", out.Buf))
				}
				v, err := refwire.Force(w)
				if err != nil {
					return "", fmt.Errorf("forcing the decoded value: %w", err)
				}
				return fmt.Sprintf("%v then %x", outs, ref.Encode(nil, v)), nil
			})
		}}
	case 9:
		// a reply whose body fails to encode, then (by the same caller) an ordinary one
		req := genRequest()
		b := req.encode()
		reply := genVal(ref.TStruct, 0, genOpts{maxDepth: 2})
		return codecOp{"ReadRequest+failing WriteResponse+WriteResponse", func() string {
			return resultOf(func() (string, error) {
				r, _ := simio.NewReader(b, fullPlan)
				ctx, done := context.WithCancel(context.Background())
				rw, err := tbinary.Default.ReadRequest(ctx, wire.EnvelopeType(req.Type), r, &genericBody{})
				done() // the request's context ends once the request has been read
				if err != nil {
					return "", err
				}
				werr := rw.WriteResponse(wire.Reply, simio.NewWriter(-1), failingEnveloper{})
				w := simio.NewWriter(-1)
				if err := rw.WriteResponse(wire.Reply, w, &genericEnveloper{Body: reply}); err != nil {
					return "", err
				}
				return fmt.Sprintf("%v | %x", werr != nil, w.Buf), nil
			})
		}}
	case 6:
		// random-access request API: DecodeRequest + the responder it returns
		req := genRequest()
		b := req.encode()
		reply := genVal(ref.TStruct, 0, genOpts{maxDepth: 2})
		return codecOp{"DecodeRequest+EncodeResponse", func() string {
			return resultOf(func() (string, error) {
				v, resp, err := tbinary.Default.DecodeRequest(wire.EnvelopeType(req.Type), simio.NewReaderAt(b, fullPlan))
				if err != nil {
					return "", err
				}
				body, err := refwire.Force(v)
				if err != nil {
					return "", err
				}
				w := simio.NewWriter(-1)
				if err := resp.EncodeResponse(refwire.ToWire(reply), wire.Reply, w); err != nil {
					return "", err
				}
				return fmt.Sprintf("%x | %x", ref.Encode(nil, body), w.Buf), nil
			})
		}}
	case 7:
		// decode lazily, then force through the library's own walker
		t := genType()
		b := ref.Encode(nil, genVal(t, 0, genOpts{maxDepth: 3}))
		if simrt.Flip("c18.mutate", 0.3) {
			b, _ = mutate(b, nil, 0)
		}
		if simrt.Flip("c18.container-keys-failing-value", 0.15) {
			// a map whose keys are containers and one of whose values fails only when it is
			// forced (a bool that is neither 0 nor 1)
			n := 1 + ch("c18.container-key-entries", 3)
			t, b = ref.TMap, []byte{ref.TList, ref.TList, 0, 0, 0, byte(n)}
			bad := ch("c18.failing-entry", n)
			for i := 0; i < n; i++ {
				b = append(b, ref.TI32, 0, 0, 0, 2, 0, 0, 0, byte(i), 0, 0, 0, 9) // key: list<i32> [i, 9]
				x := byte(1)
				if i == bad {
					x = 2
				}
				b = append(b, ref.TBool, 0, 0, 0, 2, 0, x) // value: list<bool> [false, x]
			}
		}
		return codecOp{"Decode+EvaluateValue", func() string {
			return resultOf(func() (string, error) {
				w, err := tbinary.Default.Decode(simio.NewReaderAt(b, fullPlan), wire.Type(t))
				if err != nil {
					return "", err
				}
				// EvaluateValue closes every lazy container it walks: the value is spent afterwards
				if err := wire.EvaluateValue(w); err != nil {
					return "", err
				}
				return "evaluated", nil
			})
		}}
	case 5:
		// Skip through the stream reader, seekable or not
		t := genType()
		b := ref.Encode(nil, genVal(t, 0, genOpts{maxDepth: 3}))
		plan := simio.Plan{TruncAt: -1, ErrAt: -1, Style: simio.Style(ch("c18.style", 3)), Seekable: ch("c18.seekable", 2) == 1}
		plan.SeekFails = plan.Seekable && ch("c18.seek-fails", 2) == 1 // a pipe behind an *os.File
		return codecOp{"Skip", func() string {
			return resultOf(func() (string, error) {
				o := stSkip(b, wire.Type(t), plan)
				if !o.ok {
					return "", errors.New(o.String())
				}
				return fmt.Sprintf("skipped %d", o.used), nil
			})
		}}
	case 0:
		v := genVal(genType(), 0, genOpts{maxDepth: 3})
		return codecOp{"Encode", func() string {
			return resultOf(func() (string, error) {
				w := simio.NewWriter(-1)
				if err := tbinary.Default.Encode(refwire.ToWire(v), w); err != nil {
					return "", err
				}
				return fmt.Sprintf("%x", w.Buf), nil
			})
		}}
	case 1:
		t := genType()
		b := ref.Encode(nil, genVal(t, 0, genOpts{maxDepth: 3}))
		if simrt.Flip("c18.mutate", 0.2) {
			b, _ = mutate(b, nil, 0)
		}
		if len(b) > 2 && simrt.Flip("c18.cut-short", 0.15) {
			b = b[:len(b)-1-ch("c18.cut-by", len(b)/2)] // the input ends inside the value
		}
		return codecOp{"Decode+force", func() string {
			return resultOf(func() (string, error) {
				w, err := tbinary.Default.Decode(simio.NewReaderAt(b, fullPlan), wire.Type(t))
				if err != nil {
					return "", err
				}
				v, err := refwire.Force(w)
				if err != nil {
					return "", fmt.Errorf("forcing the decoded value: %w", err)
				}
				return fmt.Sprintf("%x", ref.Encode(nil, v)), nil
			})
		}}
	case 2:
		req := genRequest()
		if req.F == frBare {
			req.F = frVersioned
		}
		return codecOp{"EncodeEnveloped", func() string {
			return resultOf(func() (string, error) {
				w := simio.NewWriter(-1)
				env := wire.Envelope{Name: req.Name, Type: wire.EnvelopeType(req.Type), SeqID: req.SeqID, Value: refwire.ToWire(req.Body)}
				if err := tbinary.Default.EncodeEnveloped(env, w); err != nil {
					return "", err
				}
				return fmt.Sprintf("%x", w.Buf), nil
			})
		}}
	case 3:
		req := genRequest()
		if req.F == frBare {
			req.F = frLegacy
		}
		b := req.encode()
		return codecOp{"DecodeEnveloped", func() string {
			return resultOf(func() (string, error) {
				e, err := tbinary.Default.DecodeEnveloped(simio.NewReaderAt(b, fullPlan))
				if err != nil {
					return "", err
				}
				body, err := refwire.Force(e.Value)
				if err != nil {
					return "", err
				}
				return fmt.Sprintf("%q %d %d %x", e.Name, e.Type, e.SeqID, ref.Encode(nil, body)), nil
			})
		}}
	case 4:
		req := genRequest()
		b := req.encode()
		reply := genVal(ref.TStruct, 0, genOpts{maxDepth: 2})
		plan := simio.Plan{TruncAt: -1, ErrAt: -1, Style: simio.Style(ch("c18.style", 3))}
		ignore := ch("c18.body-ignored", 4) == 1
		return codecOp{"ReadRequest+WriteResponse", func() string {
			return resultOf(func() (string, error) {
				r, _ := simio.NewReader(b, plan)
				gb := &genericBody{Ignore: ignore}
				ctx, done := context.WithCancel(context.Background())
				rw, err := tbinary.Default.ReadRequest(ctx, wire.EnvelopeType(req.Type), r, gb)
				done() // the request's context ends once the request has been read
				if err != nil {
					return "", err
				}
				w := simio.NewWriter(-1)
				if err := rw.WriteResponse(wire.Reply, w, &genericEnveloper{Body: reply}); err != nil {
					return "", err
				}
				return fmt.Sprintf("%x | %x", ref.Encode(nil, gb.V), w.Buf), nil
			})
		}}
	}
	// generated types
	e := registry.Types[ch("c18.type", len(registry.Types))]
	x, v, ok := validValue(e)
	if !ok {
		x = e.New()
		fill(reflect.ValueOf(x).Elem(), 0)
		v = ref.Struct()
	}
	if simrt.Flip("c18.evolve", 0.3) {
		v, _ = evolve(v, 0)
	}
	b := ref.Encode(nil, v)
	switch ch("c18.gen-op", 4) {
	case 0:
		return codecOp{"generated ToWire+Encode " + e.Name, func() string {
			return resultOf(func() (string, error) {
				w, err := x.ToWire()
				if err != nil {
					return "", err
				}
				out := simio.NewWriter(-1)
				if err := tbinary.Default.Encode(w, out); err != nil {
					return "", err
				}
				dv, _, derr := ref.Decode(out.Buf, ref.TStruct)
				if derr != nil {
					return "", derr
				}
				return fmt.Sprintf("%x", ref.Canon(dv)), nil
			})
		}}
	case 1:
		return codecOp{"generated Encode(stream) " + e.Name, func() string {
			return resultOf(func() (string, error) {
				out := simio.NewWriter(-1)
				sw := tbinary.Default.Writer(out)
				defer sw.Close()
				if err := x.Encode(sw); err != nil {
					return "", err
				}
				dv, _, derr := ref.Decode(out.Buf, ref.TStruct)
				if derr != nil {
					return "", derr
				}
				return fmt.Sprintf("%x", ref.Canon(dv)), nil
			})
		}}
	case 2:
		return codecOp{"Decode+FromWire " + e.Name, func() string {
			return resultOf(func() (string, error) {
				w, err := tbinary.Default.Decode(simio.NewReaderAt(b, fullPlan), wire.TStruct)
				if err != nil {
					return "", err
				}
				y := e.New()
				if err := y.FromWire(w); err != nil {
					return "", err
				}
				d := describe(y)
				return fmt.Sprintf("%x %s", ref.Canon(d.val), canonStr(d)), nil
			})
		}}
	default:
		plan := simio.Plan{TruncAt: -1, ErrAt: -1, Style: simio.Style(ch("c18.style", 3))}
		return codecOp{"generated Decode(stream) " + e.Name, func() string {
			return resultOf(func() (string, error) {
				r, _ := simio.NewReader(b, plan)
				sr := tbinary.Default.Reader(r)
				defer sr.Close()
				y := e.New()
				if err := y.Decode(sr); err != nil {
					return "", err
				}
				d := describe(y)
				return fmt.Sprintf("%x %s", ref.Canon(d.val), canonStr(d)), nil
			})
		}}
	}
}

// RunC18 is one C18 run.
func RunC18(cfg simrt.Config, o world.Opts) *world.Result {
	res := &world.Result{}
	cfg.KeepEvents = o.Trace
	if o.Trace {
		cfg.KeepLabels = true
	}
	cfg.StepCap = 400000000 // 24 callers reading 64 KiB names byte by byte take tens of millions of steps; a livelock still ends here
	s := simrt.New(cfg)
	var lines []string
	logf := func(f string, a ...interface{}) {
		if o.Trace {
			lines = append(lines, fmt.Sprintf(f, a...))
		}
	}
	h := world.NewHasher()
	kind := ""
	s.Run("main", func() {
		s.SetStrategy(simrt.Strategy(ch("sim.strategy", 3)), []float64{0.1, 0.3, 0.6}[ch("sim.switchp", 3)], 300)
		s.Preempt = ch("sim.preempt", 2) == 1
		s.PreemptP = []float64{0.05, 0.2, 0.5}[ch("sim.preemptp", 3)]
		s.ChunkP0 = []float64{1, 0.5, 0}[ch("sim.chunkp0", 3)]
		s.SetMapOrder(simrt.MapOrder(ch("sim.map-order", 4)))
		kind = o.Kind
		kinds := []string{"codec", "frame", "fanout"}
		if kind == "" {
			kind = kinds[ch("c18.kind", 3)]
		} else {
			simrt.Pin("c18.kind", 3, map[string]int{"codec": 0, "frame": 1, "fanout": 2}[kind])
		}
		res.Count("c18.kind."+kind, 1)
		res.Nontrivial = true
		switch kind {
		case "codec":
			c18Codec(res, s, logf, h, o)
		case "frame":
			c18Frame(res, s, logf, h, o)
		default:
			c18Fanout(res, s, logf, h, o)
		}
	})
	res.FromSim(s)
	if s.Aborted != "" {
		res.Failf("C18/run-abandoned-"+s.Aborted, "%s run abandoned (%s) after %d steps", kind, s.Aborted, s.Steps)
	}
	for _, t := range s.Tasks() {
		if t.Panic != "" {
			res.Failf("C18/task-panic", "task %s panicked: %s", t.Name, first(t.Panic, 600))
		}
	}
	for _, c := range res.Choices {
		h.Int(int64(c))
	}
	for _, f := range res.Failures {
		h.Str(f.Check)
	}
	res.Hash = h.Sum()
	k := world.NewHasher()
	for _, c := range res.Choices {
		k.Int(int64(c))
	}
	res.Key = k.Sum()
	if o.Trace {
		res.Trace = append(lines, world.TraceOf(s, "")...)
		res.Sample = lines
	}
	return res
}

// canonStr is the description of a decoded value that could not be serialised again: its
// Go value printed canonically (String() is not a function of the value when a map has several
// NaN keys).
func canonStr(d genOutcome) string {
	if d.str == "" || d.obj == nil {
		return d.str
	}
	return goCanon(reflect.ValueOf(d.obj))
}

// (A) codec isolation
func c18Codec(res *world.Result, s *simrt.Sim, logf func(string, ...interface{}), h *world.Hasher, o world.Opts) {
	maxK := 8
	if o.Tier == "thorough" {
		maxK = 24
	}
	K := 2 + ch("c18.tasks", maxK-1)
	// An operation's result is compared literally with what the same operation gives alone, and the
	// text of an error can name whichever invalid map entry the walk meets first: the walk order of
	// a map must therefore be a function of the map (sorted or reverse), not drawn per walk.
	s.SetMapOrder(simrt.MapOrder(ch("c18.codec-map-order", 2)))
	sharedBuf, sharedReader = nil, nil
	forcedOp = -1
	if simrt.Flip("c18.same-op", 0.3) {
		forcedOp = ch("c18.same-op-kind", 17)
	}
	defer func() { forcedOp = -1 }()
	ops := make([]codecOp, K)
	alone := make([]string, K)
	// the baseline of an operation is what it yields with every pool fresh; what the baselines
	// leave in the pools is put back before the callers start, as in a process that has been
	// running for a while
	var stash simrt.PoolStash
	for i := range ops {
		ops[i] = genCodecOp()
		stash = simrt.StashPools(stash)
		alone[i] = ops[i].run()
		h.Str(alone[i])
		logf("op %d: %s; alone -> %s", i, ops[i].name, first(alone[i], 120))
	}
	stash.Restore()
	got := make([]string, K)
	var wg simrt.WaitGroup
	wg.Add(K)
	for i := range ops {
		i := i
		simrt.GoNamed(fmt.Sprintf("caller%d", i), func() {
			defer wg.Done()
			got[i] = ops[i].run()
		})
	}
	wg.Wait()
	for i := range ops {
		h.Str(got[i])
		if got[i] != alone[i] {
			res.Failf("C18/codec-isolation", "%s: alone -> %s, among %d concurrent operations -> %s", ops[i].name, first(alone[i], 160), K, first(got[i], 160))
		}
	}
	res.Count("c18.codec.operations", int64(K))
}

type frameIn struct{ payload string }
type frameOut struct {
	payload string
	counter uint32
	err     bool
}

type echoHandler struct {
	served   uint32
	stopAt   uint32
	srv      *frame.Server
	hadError bool
}

func (e *echoHandler) Handle(req []byte) ([]byte, error) {
	simrt.YieldNow()
	e.served++
	out := binary.BigEndian.AppendUint32(nil, e.served)
	out = append(out, req...)
	if e.stopAt > 0 && e.served >= e.stopAt {
		return nil, errors.New("server exits")
	}
	return out, nil
}

// (B) framed client: linearizability against "state = requests served".
func c18Frame(res *world.Result, s *simrt.Sim, logf func(string, ...interface{}), h *world.Hasher, o world.Opts) {
	K := 2 + ch("c18.clients", 7)
	perClient := 1 + ch("c18.sends", 3)
	if v := []int64{0, 0, 16, 4}[ch("sim.fastpath", 4)]; v > 0 {
		simrt.SetKnob("frame.fastPathFrameSize", v)
	}
	up, down := simrt.NewPipe("c2s"), simrt.NewPipe("s2c")
	upR, upW := &simrt.PipeReader{P: up, Tag: "c2s.r"}, &simrt.PipeWriter{P: up, Tag: "c2s.w"}
	downR, downW := &simrt.PipeReader{P: down, Tag: "s2c.r"}, &simrt.PipeWriter{P: down, Tag: "s2c.w"}
	handler := &echoHandler{}
	if simrt.Flip("c18.server-exits", 0.2) {
		handler.stopAt = uint32(1 + ch("c18.exit-after", K*perClient))
	}
	srv := frame.NewServer(upR, downW)
	handler.srv = srv
	var swg simrt.WaitGroup
	swg.Add(1)
	simrt.GoNamed("server", func() {
		defer swg.Done()
		srv.Serve(handler)
		// a server that stops serving exits: its pipe ends close, as a process's would
		upR.CloseQuiet()
		downW.CloseQuiet()
	})
	client := frame.NewClient(upW, downR)
	var history []porcupine.Operation
	var hmu simrt.Mutex // harness state shared by the client tasks
	var cwg simrt.WaitGroup
	cwg.Add(K)
	for c := 0; c < K; c++ {
		c := c
		simrt.GoNamed(fmt.Sprintf("client%d", c), func() {
			defer cwg.Done()
			for j := 0; j < perClient; j++ {
				payload := fmt.Sprintf("client-%d-request-%d-%s", c, j, strings.Repeat("x", ch("c18.payload-len", 40)))
				call := simrt.NextSeq()
				resp, err := client.Send([]byte(payload))
				ret := simrt.NextSeq()
				out := frameOut{err: err != nil}
				if err == nil {
					if len(resp) < 4 {
						out.payload = fmt.Sprintf("short response %x", resp)
					} else {
						out.counter = binary.BigEndian.Uint32(resp)
						out.payload = string(resp[4:])
					}
				}
				hmu.Lock()
				history = append(history, porcupine.Operation{ClientId: c, Input: frameIn{payload}, Call: call, Output: out, Return: ret})
				hmu.Unlock()
				if err != nil {
					break
				}
			}
		})
	}
	cwg.Wait()
	upW.Close()
	swg.Wait()
	// isolation: every successful Send got its own payload back
	okOps := 0
	for _, op := range history {
		in, out := op.Input.(frameIn), op.Output.(frameOut)
		h.Str(out.payload)
		h.Int(int64(out.counter))
		if out.err {
			if handler.stopAt == 0 {
				res.Failf("C18/frame-send-failed", "Send(%q) failed although the server never exits", in.payload)
			}
			continue
		}
		okOps++
		if out.payload != in.payload {
			res.Failf("C18/frame-crosstalk", "Send(%q) returned the response to %q", in.payload, out.payload)
		}
	}
	logf("framed client: %d clients x %d sends, %d answered, server served %d, exits after %d", K, perClient, okOps, handler.served, handler.stopAt)
	// linearizability of the successful operations
	var okHist []porcupine.Operation
	for _, op := range history {
		if !op.Output.(frameOut).err {
			okHist = append(okHist, op)
		}
	}
	model := porcupine.Model{
		Init: func() interface{} { return uint32(0) },
		Step: func(state, input, output interface{}) (bool, interface{}) {
			st := state.(uint32)
			out := output.(frameOut)
			return out.counter == st+1 && out.payload == input.(frameIn).payload, st + 1
		},
		Equal: func(a, b interface{}) bool { return a.(uint32) == b.(uint32) },
	}
	if handler.stopAt == 0 && len(okHist) <= 64 {
		switch porcupine.CheckOperationsTimeout(model, okHist, 20*time.Second) {
		case porcupine.Illegal:
			var desc []string
			sort.Slice(okHist, func(i, j int) bool { return okHist[i].Call < okHist[j].Call })
			for _, op := range okHist {
				desc = append(desc, fmt.Sprintf("[%d,%d] c%d -> #%d", op.Call, op.Return, op.ClientId, op.Output.(frameOut).counter))
			}
			res.Failf("C18/frame-not-linearizable", "history of %d Sends is not linearizable against 'state = requests served': %s", len(okHist), strings.Join(desc, " "))
		case porcupine.Unknown:
			res.Count("c18.frame.linearizability-inconclusive", 1)
		default:
			res.Count("c18.frame.histories-linearizable", 1)
		}
	}
	res.Count("c18.frame.sends", int64(len(history)))
}

type fanGen struct {
	name   string
	files  map[string][]byte
	fail   bool
	calls  int
	closed int
}

func (g *fanGen) Generate(*api.GenerateServiceRequest) (*api.GenerateServiceResponse, error) {
	simrt.YieldNow()
	g.calls++
	simrt.YieldNow()
	if g.fail {
		return nil, fmt.Errorf("injected failure of %s", g.name)
	}
	return &api.GenerateServiceResponse{Files: g.files}, nil
}
func (g *fanGen) Handle() iplugin.Handle { return g }
func (g *fanGen) Name() string           { return g.name }
func (g *fanGen) Close() error {
	simrt.YieldNow()
	g.closed++
	if g.fail {
		return fmt.Errorf("injected close failure of %s", g.name)
	}
	return nil
}
func (g *fanGen) ServiceGenerator() iplugin.ServiceGenerator { return g }

// (C) fan-out: MultiServiceGenerator, MultiHandle.Close, concurrent.Range
func c18Fanout(res *world.Result, s *simrt.Sim, logf func(string, ...interface{}), h *world.Hasher, o world.Opts) {
	K := 1 + ch("c18.generators", 6)
	if simrt.Flip("c18.many-generators", 0.15) {
		K = 7 + ch("c18.generators-more", 12) // 7..18: also counts that are not multiples of small worker numbers
	}
	gens := make([]*fanGen, K)
	want := map[string]string{}
	collide := false
	anyFail := false
	var msg iplugin.MultiServiceGenerator
	var mh iplugin.MultiHandle
	for i := range gens {
		g := &fanGen{name: fmt.Sprintf("gen%d", i), files: map[string][]byte{}}
		dir := g.name
		if i > 0 && simrt.Flip("c18.same-name", 0.1) {
			// a second instance of a generator of that name (its files are its own)
			g.name = fmt.Sprintf("gen%d", ch("c18.same-name-as", i))
		}
		n := ch("c18.files", 4)
		mine := map[string]bool{}
		for k := 0; k < n; k++ {
			path := fmt.Sprintf("%s/f%d.go", dir, k)
			if i > 0 && simrt.Flip("c18.collide", 0.08) {
				path = fmt.Sprintf("gen%d/f0.go", ch("c18.collide-with", i))
			}
			clean := path
			// the same file may be spelled in several ways
			switch simrt.ChoiceBias("c18.spelling", 4, 0.7) {
			case 1:
				path = "./" + path
			case 2:
				path = strings.Replace(path, "/", "//", 1)
			case 3:
				path = strings.Replace(path, "/", "/./", 1)
			}
			if mine[clean] {
				continue
			}
			mine[clean] = true
			content := fmt.Sprintf("// %s[%d] %d", g.name, i, k)
			g.files[path] = []byte(content)
			if _, taken := want[clean]; taken {
				collide = true
			}
			want[clean] = content
		}
		g.fail = simrt.Flip("c18.fail", 0.1)
		anyFail = anyFail || g.fail
		gens[i] = g
		msg = append(msg, g)
		mh = append(mh, g)
	}
	before := len(s.Tasks())
	resp, err := msg.Generate(&api.GenerateServiceRequest{})
	logf("MultiServiceGenerator.Generate over %d generators (collision=%v, failing=%v): err=%v", K, collide, anyFail, err)
	h.Str(fmt.Sprint(err != nil))
	_ = before // tasks spawned by the fan-out may still be unwinding after wg.Done; the run only ends when all are gone
	for _, g := range gens {
		if g.calls != 1 {
			res.Failf("C18/fanout-visits", "generator %s was called %d times", g.name, g.calls)
		}
		if g.fail && (err == nil || !strings.Contains(err.Error(), "injected failure of "+g.name)) {
			res.Failf("C18/fanout-error-lost", "generator %s failed but the combined error does not say so: %v", g.name, err)
		}
	}
	if !anyFail {
		// which generators actually collide (a failing one contributes nothing)
		if collide && err == nil {
			res.Failf("C18/fanout-collision-unreported", "two generators returned the same path but Generate succeeded")
		}
		if !collide {
			if err != nil {
				res.Failf("C18/fanout-spurious-error", "no generator failed and no paths collide, but Generate failed: %v", err)
			} else {
				if len(resp.Files) != len(want) {
					res.Failf("C18/fanout-merge-lost", "merged %d files, the generators returned %d", len(resp.Files), len(want))
				}
				for p, c := range want {
					if string(resp.Files[p]) != c {
						res.Failf("C18/fanout-merge-lost", "file %s is missing or has the wrong content in the merged result", p)
					}
				}
			}
		}
	}
	// MultiHandle.Close
	cerr := mh.Close()
	for _, g := range gens {
		if g.closed != 1 {
			res.Failf("C18/fanout-close", "handle %s was closed %d times", g.name, g.closed)
		}
		if g.fail && (cerr == nil || !strings.Contains(cerr.Error(), "injected close failure of "+g.name)) {
			res.Failf("C18/fanout-error-lost", "closing %s failed but the combined error does not say so: %v", g.name, cerr)
		}
	}
	if !anyFail && cerr != nil {
		res.Failf("C18/fanout-spurious-error", "MultiHandle.Close failed without any injected failure: %v", cerr)
	}
	// concurrent.Range over a map and over a slice
	m := map[string]int{}
	visited := map[string]int{}
	n := ch("c18.range-n", 7)
	failKey := ""
	for i := 0; i < n; i++ {
		k := fmt.Sprintf("k%d", i)
		m[k] = i
		if simrt.Flip("c18.range-fail", 0.15) {
			failKey = k
		}
	}
	var lock simrt.Mutex
	rerr := concurrent.Range(m, func(k string, v int) error {
		simrt.YieldNow()
		lock.Lock()
		visited[k]++
		lock.Unlock()
		if k == failKey {
			return fmt.Errorf("range failure at %s", k)
		}
		return nil
	})
	for k := range m {
		if visited[k] != 1 {
			res.Failf("C18/range-visits", "concurrent.Range visited %s %d times", k, visited[k])
		}
	}
	if (failKey != "") != (rerr != nil) {
		res.Failf("C18/range-error", "concurrent.Range: injected failure at %q, returned error %v", failKey, rerr)
	}
	res.Count("c18.fanout.generators", int64(K))
	if collide {
		res.Count("c18.fanout.collision-scenarios", 1)
	}
	if anyFail {
		res.Count("c18.fanout.failure-scenarios", 1)
	}
	_ = bytes.Equal
	_ = stream.EnvelopeHeader{}
}

func taskDone(t *simrt.Task) bool { return t.Done() }
