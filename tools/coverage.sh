#!/bin/bash
# tools/coverage.sh <prop> <count> [floor]: development aid. Builds the worker with -cover, runs one worker job and
# prints per-function statement coverage of the code under test (not of the harness), so that blind spots of the
# workload generators show. Not part of any registered check.
export GOFLAGS=-mod=mod GOPROXY=off GOSUMDB=off GOTOOLCHAIN=local
P=$1; N=${2:-2000}; FLOOR=${3:-false}
cd /verif && go build -o bin/vsim ./cmd/vsim || exit 2
rm -rf /var/tmp/verif-scratch/dev-*
VSIM_COVER=1 VSIM_KEEP=1 ./bin/vsim build-only dev > /tmp/covbuild.log 2>&1 || { tail -50 /tmp/covbuild.log; exit 2; }
D=$(ls -d /var/tmp/verif-scratch/dev-* | head -1)
mkdir -p /dev/shm/vsim-dev; rm -rf $D/cov; mkdir -p $D/cov
BIN=sim; [ $P = C20 ] && BIN=tb
cat > $D/job.json <<EOJ
{"prop":"$P","tier":"quick","mode":"search","seed":${SEED:-1},"worker":0,"stride":1,"count":$N,"floor":$FLOOR,"tmp":"/dev/shm/vsim-dev","out":"$D/out.json","samples":2,"shrink_s":10,"kind":"${KIND:-}"}
EOJ
( cd $D && GOCOVERDIR=$D/cov VSIM_WORKER=1 VSIM_JOB=job.json timeout ${TMO:-900} ./bin/$BIN.test; echo exit=$? )
( cd $D/src && go tool covdata textfmt -i=$D/cov -o=$D/cov.txt && grep -v "internal/zzsim\|zz_sim" $D/cov.txt > $D/cov2.txt; sed -i '1s/.*/mode: atomic/' $D/cov2.txt; head -1 $D/cov2.txt >/dev/null; go tool cover -func=$D/cov2.txt > /tmp/cov-$P.txt )
echo "wrote /tmp/cov-$P.txt and $D/cov2.txt"
