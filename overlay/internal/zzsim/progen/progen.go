// Package progen is the shared seeded generator of Thrift programs. Every
// decision is a choice of the current run, so programs shrink with everything
// else. It produces an abstract program (what the reference models work on)
// and renders it to IDL text. It stays inside a conservative sub-language (see
// DESIGN.md §3.4) unless a workload asks for a specific construct.
package progen

import (
	"fmt"
	"sort"
	"strings"

	"go.uber.org/thriftrw/internal/zzsim/simrt"
)

type DefKind int

const (
	KTypedef DefKind = iota
	KEnum
	KStruct
	KUnion
	KException
	KConst
	KService
)

func (k DefKind) String() string {
	return [...]string{"typedef", "enum", "struct", "union", "exception", "const", "service"}[k]
}

type Program struct {
	Files   []*File // Files[0] is the root file
	Invalid string  // non-empty: what makes the program uncompilable
	seq     int

	// ModelSilent (non-empty: why): the reference model does not describe this program's values;
	// only what must hold regardless (order independence, nothing left unresolved) is checked.
	ModelSilent string

	// RecShape names the struct and the typedefs of a recursive structure one of whose
	// members has a default leading back into it (the shape of open finding F6); nil otherwise.
	RecShape []string

	sameNames   bool
	unhashable  bool
	recDefaults bool
	curFile     *File
	goRot       int
	dirFamily   int
}

type File struct {
	Index    int
	Dir      string // relative to the thrift root, "" or "a/b"
	Base     string // file name without .thrift; also the include name
	Includes []int  // indexes of included files, in textual order
	Defs     []*Def // textual order
	Deleted  bool   // removed by an edit script
	NoExt    bool   // the file is called just Base, without ".thrift" (include "./shared" is legal)
}

func (f *File) RelPath() string {
	ext := ".thrift"
	if f.NoExt {
		ext = ""
	}
	if f.Dir == "" {
		return f.Base + ext
	}
	return f.Dir + "/" + f.Base + ext
}

type Ref struct {
	File int
	Name string
}

type TypeRef struct {
	Base string   // bool byte i8 i16 i32 i64 double string binary; or "list" "set" "map"; or "" for Ref
	Key  *TypeRef // map
	Elem *TypeRef // list, set, map value
	Ref  *Ref
	// Slice: a set written `set<T> (go.type = "slice")` (generated as a Go slice)
	Slice bool
}

type Req int

const (
	ReqDefault Req = iota
	ReqRequired
	ReqOptional
)

type FieldDef struct {
	ID      int
	Name    string
	Req     Req
	Type    *TypeRef
	Default *ConstVal
	Annot   string // rendered after the field, e.g. (go.name = "x")
}

type EnumItem struct {
	Name  string
	Value int
	Expl  bool // value written explicitly
}

type CKind int

const (
	CInt CKind = iota
	CDouble
	CBool
	CString
	CList
	CMap
	CRef    // reference to a constant or an enum item
	CStruct // struct literal: Items = fieldName(CString), value, ...
)

type ConstVal struct {
	Kind  CKind
	Int   int64
	Dbl   string // literal text
	Bool  bool
	Str   string
	Items []*ConstVal // list: items; map: k,v,k,v
	// CRef: constant (Item == "") or enum item
	Ref  *Ref
	Item string
}

type Func struct {
	Name   string
	OneWay bool
	Ret    *TypeRef // nil = void
	Args   []*FieldDef
	Excs   []*FieldDef
}

type Def struct {
	Kind    DefKind
	Name    string
	File    int
	Order   int      // creation order (references go to lower Order only)
	Type    *TypeRef // typedef target, const type
	Items   []EnumItem
	Fields  []*FieldDef
	Value   *ConstVal
	Parent  *Ref
	// ParentVia > 0: the parent is written with two qualifiers, `via.file.Name`, through the
	// included file ParentVia-1 (which includes the parent's file)
	ParentVia int
	Funcs   []*Func
	Annot   string // rendered annotations, e.g. (go.name = "X")
	Removed bool   // used by edit scripts
}

// Options steer the generator.
type Options struct {
	MaxFiles     int
	MaxDefs      int  // per file
	Services     int  // 0: random; >0 at least that many services in the root file... see Gen
	WantService  bool // guarantee at least one service in the root file
	Consts       bool
	Cyclic       bool // allow cyclic includes
	SameNames    bool // allow equal type names in different files
	OutsideRoot  bool // (layout) not handled here
	Unions       bool
	Exceptions   bool
	Defaults     bool
	DeepTypedefs bool
	GoNames      bool // names that stress the Go generator (fmt, errors, ...)
	ConstRefs    bool // constants and defaults may refer to other constants / enum items
	Dotted       bool // local definitions with dotted names
	CapsWords    bool // one ALL-CAPS word as enum item / constant here and as function, field or type name there
	Invalid      bool // inject one unresolvable or ill-typed reference (compile must fail)
	NoServices   bool
	StructConsts bool     // constants (and defaults) of struct type written as map literals
	RecDefaults  bool     // recursive structures whose back-pointer has a struct-constant default (open finding F6)
	ExtraDirs    []string // further directory names to place files in
	Unhashable   bool     // map keys and set elements that are lists, sets, maps or structs (generated as slices of pairs / slices)
	Annotations  bool     // go.tag / go.nolog / go.redact / go.label / go.type annotations on struct fields
	Recursive    bool     // recursive types: a struct reaching itself through typedef chains / containers / other structs
}

func ch(label string, n int) int { return simrt.Choice(label, n) }

// dirs: nested, prefix-sharing names (a, ab), and equally named directories at the same depth of sibling trees (a/b, c/b)
var dirs = []string{"", "a", "a/b", "c", "c/d", "ab", "c/b"}
var bases = []string{"root", "alpha", "beta", "gamma", "delta", "shared"}

// goBases are file names that collide with packages the generated code imports.
var goBases = []string{"root", "fmt", "fmt2", "errors", "errors2", "strings", "strings2", "wire", "stream", "zapcore", "multierr", "bytes", "bytes2", "thriftreflect", "ptr", "math", "strconv", "base64", "json"}

// Gen draws a program.
func Gen(o Options) *Program {
	p := &Program{}
	if o.MaxFiles < 1 {
		o.MaxFiles = 1
	}
	if o.MaxDefs < 1 {
		o.MaxDefs = 4
	}
	nf := 1 + ch("prog.files", o.MaxFiles)
	for i := 0; i < nf; i++ {
		f := &File{Index: i, Base: bases[i%len(bases)]}
		if i >= len(bases) {
			f.Base = fmt.Sprintf("%s%d", f.Base, i)
		}
		if o.GoNames && i > 0 {
			// distinct picks: index i-1 offsets into a rotation chosen once per program
			if i == 1 {
				p.goRot = ch("prog.go-bases", len(goBases)-1)
			}
			f.Base = goBases[1+(p.goRot+i-1)%(len(goBases)-1)]
		}
		ds := dirs
		if len(o.ExtraDirs) > 0 {
			ds = append(append([]string{}, dirs...), o.ExtraDirs...)
		}
		if i == 0 {
			// one program in three keeps to a small family of directories, so that the
			// telling combinations (a next to ab below a/b; a/b next to c/b) are not rare
			p.dirFamily = ch("prog.dir-family", 6)
		}
		switch p.dirFamily {
		case 1:
			ds = []string{"a", "a/b", "ab"}
		case 2:
			ds = []string{"a/b", "c/b", "c"}
		}
		f.Dir = ds[ch("prog.dir", len(ds))]
		p.Files = append(p.Files, f)
	}
	// include DAG: every file j>0 is included by one earlier file; extra edges by choice
	for j := 1; j < nf; j++ {
		i := ch("prog.inc-from", j)
		p.Files[i].Includes = append(p.Files[i].Includes, j)
	}
	for i := 0; i < nf; i++ {
		for j := i + 1; j < nf; j++ {
			if !contains(p.Files[i].Includes, j) && simrt.Flip("prog.inc-extra", 0.25) {
				p.Files[i].Includes = append(p.Files[i].Includes, j)
			}
		}
	}
	if o.Cyclic && nf > 1 && simrt.Flip("prog.inc-cycle", 0.3) {
		j := 1 + ch("prog.cyc-from", nf-1)
		i := ch("prog.cyc-to", j)
		if !contains(p.Files[j].Includes, i) {
			p.Files[j].Includes = append(p.Files[j].Includes, i)
		}
	}
	if o.SameNames && nf > 2 && simrt.Flip("prog.same-base", 0.2) {
		// two files with the same base name in different directories (a/common.thrift and
		// b/common.thrift); legal as long as no file includes both and neither includes the other
		j := 1 + ch("prog.same-base-a", nf-1)
		k := 1 + ch("prog.same-base-b", nf-1)
		ok := j != k && !contains(p.Files[j].Includes, k) && !contains(p.Files[k].Includes, j)
		for _, f := range p.Files {
			if contains(f.Includes, j) && contains(f.Includes, k) {
				ok = false
			}
		}
		if ok {
			if p.Files[k].Dir == p.Files[j].Dir {
				for _, d := range dirs {
					if d != p.Files[j].Dir {
						p.Files[k].Dir = d
						break
					}
				}
			}
			p.Files[k].Base = p.Files[j].Base
		}
	}
	// definitions, created leaf files first so that includers can refer to them
	p.sameNames = o.SameNames
	p.unhashable = o.Unhashable
	p.recDefaults = o.RecDefaults
	for i := nf - 1; i >= 0; i-- {
		f := p.Files[i]
		p.curFile = f
		nd := 1 + ch("prog.defs", o.MaxDefs)
		for k := 0; k < nd; k++ {
			p.genDef(f, o)
		}
	}
	p.curFile = nil
	if o.Cyclic {
		p.addCycleReferences()
	}
	if o.WantService {
		root := p.Files[0]
		has := false
		for _, d := range root.Defs {
			if d.Kind == KService {
				has = true
			}
		}
		if !has {
			p.genService(root, o)
		}
	}
	if o.Recursive && simrt.Flip("prog.recursive", 0.4) {
		p.addRecursion()
	}
	if !o.NoServices && simrt.Flip("prog.service-chain", 0.4) {
		p.addServiceChain(o)
	}
	if !o.NoServices && simrt.Flip("prog.service-diamond", 0.4) {
		p.addServiceDiamond(o)
	}
	if o.StructConsts && o.ConstRefs && simrt.Flip("prog.struct-const-reused", 0.1) {
		p.addStructConstReuse()
	}
	if o.Consts && o.ConstRefs && simrt.Flip("prog.shared-list-const", 0.25) {
		p.addSharedListConst()
	}
	if o.Consts && o.ConstRefs && simrt.Flip("prog.const-triangle", 0.4) {
		p.addConstTriangle()
	}
	if o.StructConsts && simrt.Flip("prog.enum-struct-const", 0.5) {
		p.addEnumStructConst(o)
	}
	if o.Dotted && simrt.Flip("prog.dotted", 0.25) {
		p.addDotted(o)
	}
	if o.CapsWords && simrt.Flip("prog.caps-words", 0.15) {
		p.addCapsWords()
	}
	if o.Annotations && simrt.Flip("prog.go-named-type", 0.1) {
		// a type that carries a go.name annotation, mentioned in the signature of a service of
		// another file
		type pair struct{ user, home *File }
		var pairs []pair
		for _, g := range p.Files {
			for _, j := range g.Includes {
				pairs = append(pairs, pair{g, p.Files[j]})
			}
		}
		if len(pairs) > 0 {
			pr := pairs[ch("prog.go-named-pair", len(pairs))]
			var t *Def
			if ch("prog.go-named-kind", 2) == 0 {
				t = p.add(pr.home, &Def{Kind: KStruct, Name: p.name("Record"), Fields: []*FieldDef{{ID: 1, Name: "v", Req: ReqOptional, Type: &TypeRef{Base: "i32"}}}})
			} else {
				t = p.add(pr.home, &Def{Kind: KEnum, Name: p.name("Kind"), Items: []EnumItem{{Name: "PLAIN", Value: 0}, {Name: "URGENT", Value: 1}}})
			}
			t.Annot = fmt.Sprintf(`(go.name = "Entry%d")`, p.seq)
			ref := &TypeRef{Ref: &Ref{t.File, t.Name}}
			p.add(pr.user, &Def{Kind: KService, Name: p.name("Store"), Funcs: []*Func{{Name: fmt.Sprintf("fn%d_put", p.seq), Ret: ref,
				Args: []*FieldDef{{ID: 1, Name: "item", Req: ReqOptional, Type: ref}}}}})
		}
	}
	if o.CapsWords && o.Exceptions && simrt.Flip("prog.error-field", 0.1) {
		// a field called "error" is special in an exception only; here it sits in a plain struct
		// (or among a function's arguments) while some other file may define exceptions
		f := p.Files[ch("prog.error-field-file", len(p.Files))]
		fd := &FieldDef{ID: 1, Name: "error", Req: ReqOptional, Type: &TypeRef{Base: "string"}}
		if ch("prog.error-field-site", 2) == 0 {
			p.add(f, &Def{Kind: KStruct, Name: p.name("S"), Fields: []*FieldDef{fd}})
		} else {
			p.add(f, &Def{Kind: KService, Name: p.name("Svc"), Funcs: []*Func{{Name: fmt.Sprintf("fn%d_report", p.seq), Args: []*FieldDef{fd}}}})
		}
		g := p.Files[ch("prog.error-exception-file", len(p.Files))]
		p.add(g, &Def{Kind: KException, Name: p.name("X"), Fields: []*FieldDef{{ID: 1, Name: "why1", Req: ReqOptional, Type: &TypeRef{Base: "string"}}}})
	}
	if o.Invalid && simrt.Flip("prog.invalid", 0.15) {
		p.injectInvalid()
	}
	// textual order of definitions is a choice (creation order by default)
	for _, f := range p.Files {
		shuffle(f.Defs, "prog.def-order")
	}
	return p
}

// addRecursion makes a struct reach itself: through a chain of 1-3 typedefs
// (possibly in another file that includes, or is included by, the struct's
// file... kept to the same file or a cyclic include pair), optionally wrapped
// in a container, or through a second struct.
func (p *Program) addRecursion() {
	var structs []*Def
	for _, f := range p.Files {
		for _, d := range f.Defs {
			if d.Kind == KStruct {
				structs = append(structs, d)
			}
		}
	}
	if len(structs) == 0 {
		return
	}
	s := structs[ch("rec.struct", len(structs))]
	f := p.Files[s.File]
	target := &TypeRef{Ref: &Ref{s.File, s.Name}}
	n := ch("rec.chain", 4) // 0..3 typedefs between the field and the struct
	shape := []string{s.Name}
	for i := 0; i < n; i++ {
		td := p.add(f, &Def{Kind: KTypedef, Name: p.name("Rt"), Type: target})
		target = &TypeRef{Ref: &Ref{td.File, td.Name}}
		shape = append(shape, td.Name)
	}
	var keyed *ConstVal // for a map with a named key type: a literal `{key: []}` that is a valid default
	wrap := ch("rec.wrap", 5)
	if p.recDefaults && wrap != 3 && simrt.Flip("rec.prefer-second-struct", 0.3) {
		wrap = 3
	}
	switch wrap {
	case 1:
		target = &TypeRef{Base: "list", Elem: target}
	case 2:
		target = &TypeRef{Base: "map", Key: &TypeRef{Base: "string"}, Elem: target}
	case 4:
		// a typedef of a map whose key is a named type and whose values are lists of the
		// struct: `typedef map<Color, list<S>> Rm; struct S {1: optional Rm kids = {1: []}}`
		key := &TypeRef{Base: "string"}
		lit := &ConstVal{Kind: CString, Str: "k"}
		var enums []*Def
		for _, d := range p.visible(f, KEnum) {
			if len(d.Items) > 0 {
				enums = append(enums, d)
			}
		}
		if len(enums) > 0 && simrt.Flip("rec.key-enum", 0.7) {
			e := enums[ch("rec.key-enum-pick", len(enums))]
			key = &TypeRef{Ref: &Ref{e.File, e.Name}}
			lit = &ConstVal{Kind: CInt, Int: int64(e.Items[ch("rec.key-item", len(e.Items))].Value)}
		} else {
			td := p.add(f, &Def{Kind: KTypedef, Name: p.name("Tk"), Type: &TypeRef{Base: "string"}})
			key = &TypeRef{Ref: &Ref{td.File, td.Name}}
		}
		m := &TypeRef{Base: "map", Key: key, Elem: &TypeRef{Base: "list", Elem: target}}
		td := p.add(f, &Def{Kind: KTypedef, Name: p.name("Rm"), Type: m})
		target = &TypeRef{Ref: &Ref{td.File, td.Name}}
		shape = append(shape, td.Name)
		keyed = &ConstVal{Kind: CMap, Items: []*ConstVal{lit, {Kind: CList}}}
	case 3:
		// through a second struct
		back := &FieldDef{ID: 1, Name: "back1", Req: ReqOptional, Type: target}
		mid := p.add(f, &Def{Kind: KStruct, Name: p.name("S"), Fields: []*FieldDef{back}})
		if p.recDefaults && p.constructible(s, 0) && simrt.Flip("rec.default", 0.2) {
			// ... whose back-pointer defaults to a struct constant of the first struct
			c := p.add(f, &Def{Kind: KConst, Name: p.name("C"), Type: &TypeRef{Ref: &Ref{s.File, s.Name}}})
			c.Value = p.genValue(f, c.Type, Options{}, 1)
			back.Default = &ConstVal{Kind: CRef, Ref: &Ref{c.File, c.Name}}
			p.RecShape = shape
		} else if p.recDefaults && p.constructible(s, 0) && simrt.Flip("rec.inline-default", 0.5) {
			// ... or to a struct literal written in place, which leaves out a field of the
			// first struct whose own default still has to be resolved (a constant)
			c := p.add(f, &Def{Kind: KConst, Name: p.name("Cw"), Type: &TypeRef{Base: "i32"}, Value: &ConstVal{Kind: CInt, Int: int64(3 + ch("rec.weight", 90))}})
			s.Fields = append(s.Fields, &FieldDef{ID: nextID(s.Fields), Name: fmt.Sprintf("w%d", nextID(s.Fields)), Req: ReqOptional, Type: &TypeRef{Base: "i32"},
				Default: &ConstVal{Kind: CRef, Ref: &Ref{c.File, c.Name}}})
			back.Default = p.genValue(f, &TypeRef{Ref: &Ref{s.File, s.Name}}, Options{}, 1)
			if ch("rec.back-req", 2) == 1 {
				back.Req = ReqRequired
			}
			p.RecShape = shape
		}
		target = &TypeRef{Ref: &Ref{mid.File, mid.Name}}
	}
	id := 1
	for _, fd := range s.Fields {
		if fd.ID >= id {
			id = fd.ID + 1
		}
	}
	self := &FieldDef{ID: id, Name: fmt.Sprintf("self%d", id), Req: ReqOptional, Type: target}
	if keyed != nil && simrt.Flip("rec.keyed-default", 0.6) {
		self.Default = keyed
	}
	if n == 0 && (target.Base == "list" || target.Base == "map") && self.Default == nil && simrt.Flip("rec.default-from-constant", 0.3) {
		// `struct S {1: optional list<S> kids = NO_KIDS}  const list<S> NO_KIDS = []`: the
		// constant's type leads back to the struct whose default names the constant
		empty := &ConstVal{Kind: CList}
		if target.Base == "map" {
			empty = &ConstVal{Kind: CMap}
		}
		c := p.add(f, &Def{Kind: KConst, Name: p.name("Ck"), Type: target, Value: empty})
		self.Default = &ConstVal{Kind: CRef, Ref: &Ref{c.File, c.Name}}
		if simrt.Flip("rec.constant-shared", 0.5) {
			// the empty constant is also used where nothing recursive is involved, under a type
			// that does not mention the struct (an empty container casts to any element type)
			plain := &TypeRef{Base: "list", Elem: &TypeRef{Base: "i32"}}
			if target.Base == "map" {
				plain = &TypeRef{Base: "map", Key: target.Key, Elem: &TypeRef{Base: "i32"}}
			}
			if ch("rec.constant-shared-type", 2) == 1 {
				plain = target
			}
			p.add(f, &Def{Kind: KStruct, Name: p.name("S"), Fields: []*FieldDef{{ID: 1, Name: "other", Req: ReqOptional, Type: plain, Default: &ConstVal{Kind: CRef, Ref: &Ref{c.File, c.Name}}}}})
		}
	}
	if p.recDefaults && n > 0 && (target.Base == "list" || target.Base == "map") && simrt.Flip("rec.container-default", 0.2) {
		// `typedef S Rt; struct S {1: optional list<Rt> kids = []}`: an empty container default
		// on the recursive member itself (same early cast as F6 when Rt is linked first)
		if target.Base == "list" {
			self.Default = &ConstVal{Kind: CList}
		} else {
			self.Default = &ConstVal{Kind: CMap}
		}
		p.RecShape = shape
	}
	// fields are linked in declaration order: the position decides which of the
	// struct's other fields are already linked when the recursion comes back
	pos := len(s.Fields) - ch("rec.self-pos", len(s.Fields)+1)
	s.Fields = append(s.Fields[:pos:pos], append([]*FieldDef{self}, s.Fields[pos:]...)...)
}

// addCycleReferences: where two files include each other, make the later-created
// one refer to definitions of the earlier-created one as well, so that
// references really run both ways across the include cycle.
func (p *Program) addCycleReferences() {
	for _, f := range p.Files {
		for _, j := range f.Includes {
			g := p.Files[j]
			if j >= f.Index || !contains(g.Includes, f.Index) {
				continue // only the back edge of a cycle (f was generated before g had any definitions)
			}
			var types []*Def
			for _, d := range g.Defs {
				if d.Kind == KStruct || d.Kind == KEnum || d.Kind == KTypedef {
					types = append(types, d)
				}
			}
			if len(types) == 0 || !simrt.Flip("cycle.back-reference", 0.7) {
				continue
			}
			d := types[ch("cycle.target", len(types))]
			ref := &TypeRef{Ref: &Ref{d.File, d.Name}}
			if simrt.Flip("cycle.via-typedef", 0.5) {
				p.add(f, &Def{Kind: KTypedef, Name: p.name("Td"), Type: ref})
			} else {
				p.add(f, &Def{Kind: KStruct, Name: p.name("S"), Fields: []*FieldDef{{ID: 1, Name: "across1", Req: ReqOptional, Type: ref}}})
			}
		}
	}
}

// addServiceChain adds an inheritance chain of three services over an include
// path a -> b -> c (Leaf in a extends b.Mid, Mid extends c.Base); a does not
// necessarily include c itself, so the grandparent lives in a file the leaf's
// file only reaches transitively.
func (p *Program) addServiceChain(o Options) {
	type path struct{ a, b, c int }
	var paths []path
	for _, fa := range p.Files {
		for _, b := range fa.Includes {
			for _, c := range p.Files[b].Includes {
				if c != fa.Index && c != b {
					paths = append(paths, path{fa.Index, b, c})
				}
			}
		}
	}
	if len(paths) == 0 {
		return
	}
	pt := paths[ch("chain.path", len(paths))]
	mk := func(fi int, name string, parent *Ref) *Def {
		f := p.Files[fi]
		d := &Def{Kind: KService, Name: p.name(name), Parent: parent}
		d.Funcs = append(d.Funcs, &Func{Name: fmt.Sprintf("fn%d_0", p.seq), Args: p.genFields(f, "arg", 2, o, false)})
		return p.add(f, d)
	}
	base := mk(pt.c, "Base", nil)
	mid := mk(pt.b, "Mid", &Ref{base.File, base.Name})
	mk(pt.a, "Leaf", &Ref{mid.File, mid.Name})
	if simrt.Flip("chain.two-qualifiers", 0.4) {
		// ... and a service of a that names the grandparent directly, through b: `extends b.c.Base`
		deep := mk(pt.a, "Deep", &Ref{base.File, base.Name})
		deep.ParentVia = pt.b + 1
	}
}

// addServiceDiamond: file a includes b and f, f includes b; b declares a parent
// service and, in the same file, a child whose name sorts before the parent's;
// f declares another child of b's parent. Whether b's services are first met
// through b itself or through f's child depends on the order in which a's
// includes are visited.
func (p *Program) addServiceDiamond(o Options) {
	type tri struct{ a, b, f int }
	var tris []tri
	for _, fa := range p.Files {
		for _, b := range fa.Includes {
			for _, f := range fa.Includes {
				if f != b && b != fa.Index && f != fa.Index && contains(p.Files[f].Includes, b) {
					tris = append(tris, tri{fa.Index, b, f})
				}
			}
		}
	}
	if len(tris) == 0 {
		return
	}
	t := tris[ch("diamond.pick", len(tris))]
	mk := func(fi int, name string, parent *Ref) *Def {
		f := p.Files[fi]
		d := &Def{Kind: KService, Name: p.name(name), Parent: parent}
		d.Funcs = append(d.Funcs, &Func{Name: fmt.Sprintf("fn%d_0", p.seq), Args: p.genFields(f, "arg", 2, o, false)})
		return p.add(f, d)
	}
	par := mk(t.b, "Parent", nil)
	mk(t.b, "Achild", &Ref{par.File, par.Name})
	mk(t.f, "Sibling", &Ref{par.File, par.Name})
}

// addStructConstReuse: one struct constant referred to where other structs (same field
// name, another numeric type) are declared - the compiler accepts that and casts the literal
// again for each user; the model makes no claim about the values.
func (p *Program) addStructConstReuse() {
	f := p.Files[ch("scr.file", len(p.Files))]
	types := []string{"i32", "double", "i64", "i16"}
	var ss []*Def
	n := 2 + ch("scr.structs", 2)
	for i := 0; i < n; i++ {
		ss = append(ss, p.add(f, &Def{Kind: KStruct, Name: p.name("Sr"), Fields: []*FieldDef{
			{ID: 1, Name: "x", Req: ReqOptional, Type: &TypeRef{Base: types[(i+ch("scr.type", 4))%4]}},
			{ID: 2, Name: "y", Req: ReqOptional, Type: &TypeRef{Base: "double"}, Default: &ConstVal{Kind: CInt, Int: 2}}}}))
	}
	a := p.add(f, &Def{Kind: KConst, Name: p.name("Ca"), Type: &TypeRef{Ref: &Ref{ss[0].File, ss[0].Name}},
		Value: &ConstVal{Kind: CStruct, Items: []*ConstVal{{Kind: CString, Str: "x"}, {Kind: CInt, Int: int64(1 + ch("scr.val", 9))}}}})
	for _, st := range ss[1:] {
		p.add(f, &Def{Kind: KConst, Name: p.name("Cb"), Type: &TypeRef{Ref: &Ref{st.File, st.Name}}, Value: &ConstVal{Kind: CRef, Ref: &Ref{a.File, a.Name}}})
	}
	if simrt.Flip("scr.same-again", 0.5) {
		p.add(f, &Def{Kind: KConst, Name: p.name("Cc"), Type: &TypeRef{Ref: &Ref{ss[0].File, ss[0].Name}}, Value: &ConstVal{Kind: CRef, Ref: &Ref{a.File, a.Name}}})
	}
	p.ModelSilent = "a struct constant is used as a constant of other structs in " + f.RelPath()
}

// addSharedListConst: one list constant that several constants and defaults refer to under
// element types to which its values cast differently (ints as ints, doubles, booleans).
func (p *Program) addSharedListConst() {
	f := p.Files[ch("slc.file", len(p.Files))]
	base := p.add(f, &Def{Kind: KConst, Name: p.name("Cl"), Type: &TypeRef{Base: "list", Elem: &TypeRef{Base: "i32"}},
		Value: &ConstVal{Kind: CList, Items: []*ConstVal{{Kind: CInt, Int: int64(ch("slc.a", 2))}, {Kind: CInt, Int: int64(ch("slc.b", 2))}}}})
	ref := func() *ConstVal { return &ConstVal{Kind: CRef, Ref: &Ref{base.File, base.Name}} }
	elems := []string{"i32", "double", "bool", "i64", "i16"}
	n := 2 + ch("slc.users", 3)
	for i := 0; i < n; i++ {
		et := elems[ch("slc.elem", len(elems))]
		t := &TypeRef{Base: "list", Elem: &TypeRef{Base: et}}
		if simrt.Flip("slc.as-default", 0.3) {
			p.add(f, &Def{Kind: KStruct, Name: p.name("S"), Fields: []*FieldDef{{ID: 1, Name: "xs", Req: ReqOptional, Type: t, Default: ref()}}})
		} else {
			p.add(f, &Def{Kind: KConst, Name: p.name("Cu"), Type: t, Value: ref()})
		}
	}
}

// addConstTriangle: a includes x and y, x includes y; y declares an enum (or a typedef of a
// scalar) and a constant of exactly that type; x - not the root - initialises a constant, a
// default and a list element of that very type from y's constant.
func (p *Program) addConstTriangle() {
	type tri struct{ a, y, x int }
	var tris []tri
	for _, fa := range p.Files {
		for _, y := range fa.Includes {
			for _, x := range fa.Includes {
				if x != y && y != fa.Index && x != fa.Index && contains(p.Files[x].Includes, y) {
					tris = append(tris, tri{fa.Index, y, x})
				}
			}
		}
	}
	if len(tris) == 0 {
		return
	}
	t := tris[ch("ctri.pick", len(tris))]
	fy, fx := p.Files[t.y], p.Files[t.x]
	var typ *TypeRef
	var val *ConstVal
	if ch("ctri.kind", 2) == 0 {
		e := p.add(fy, &Def{Kind: KEnum, Name: p.name("Ec")})
		for i := 0; i < 3; i++ {
			e.Items = append(e.Items, EnumItem{Name: fmt.Sprintf("%s_K%d", strings.ToUpper(e.Name), i), Value: i})
		}
		typ = &TypeRef{Ref: &Ref{e.File, e.Name}}
		val = &ConstVal{Kind: CRef, Ref: &Ref{e.File, e.Name}, Item: e.Items[ch("ctri.item", 3)].Name}
	} else {
		td := p.add(fy, &Def{Kind: KTypedef, Name: p.name("Tc"), Type: &TypeRef{Base: []string{"i32", "string", "double"}[ch("ctri.base", 3)]}})
		typ = &TypeRef{Ref: &Ref{td.File, td.Name}}
		switch td.Type.Base {
		case "string":
			val = &ConstVal{Kind: CString, Str: "tri"}
		case "double":
			val = &ConstVal{Kind: CDouble, Dbl: "2.5"}
		default:
			val = &ConstVal{Kind: CInt, Int: 42}
		}
	}
	cy := p.add(fy, &Def{Kind: KConst, Name: p.name("Cy"), Type: typ, Value: val})
	ref := func() *ConstVal { return &ConstVal{Kind: CRef, Ref: &Ref{cy.File, cy.Name}} }
	p.add(fx, &Def{Kind: KConst, Name: p.name("Cx"), Type: typ, Value: ref()})
	if simrt.Flip("ctri.default", 0.6) {
		p.add(fx, &Def{Kind: KStruct, Name: p.name("S"), Fields: []*FieldDef{{ID: 1, Name: "tri", Req: ReqOptional, Type: typ, Default: ref()}}})
	}
	if simrt.Flip("ctri.list", 0.5) {
		p.add(fx, &Def{Kind: KConst, Name: p.name("Cxl"), Type: &TypeRef{Base: "list", Elem: typ}, Value: &ConstVal{Kind: CList, Items: []*ConstVal{ref(), ref()}}})
	}
}

// addEnumStructConst adds a struct whose optional fields have enum / typedef
// types (preferably from different files, possibly with the same name) and a
// constant that sets several of them in one literal: rendering such a literal
// declares one helper per field type and imports their packages.
func (p *Program) addEnumStructConst(o Options) {
	f := p.Files[ch("esc.file", len(p.Files))]
	var cands []*Def
	for _, d := range p.visible(f, KEnum, KTypedef) {
		switch p.KindOf(&TypeRef{Ref: &Ref{d.File, d.Name}}) {
		case "enum", "int", "string", "bool", "double":
			cands = append(cands, d)
		}
	}
	if len(cands) == 0 {
		return
	}
	s := &Def{Kind: KStruct, Name: p.name("S")}
	n := 2 + ch("esc.fields", 3)
	for i := 0; i < n; i++ {
		var t *TypeRef
		if simrt.Flip("esc.primitive", 0.25) {
			t = &TypeRef{Base: []string{"i32", "string", "bool", "double"}[ch("esc.base", 4)]}
		} else {
			d := cands[ch("esc.type", len(cands))]
			t = &TypeRef{Ref: &Ref{d.File, d.Name}}
		}
		s.Fields = append(s.Fields, &FieldDef{ID: i + 1, Name: fmt.Sprintf("opt%d", i+1), Req: ReqOptional, Type: t})
	}
	p.add(f, s)
	c := p.add(f, &Def{Kind: KConst, Name: p.name("C"), Type: &TypeRef{Ref: &Ref{s.File, s.Name}}})
	v := &ConstVal{Kind: CStruct}
	for _, fd := range s.Fields {
		v.Items = append(v.Items, &ConstVal{Kind: CString, Str: fd.Name}, p.genValue(f, fd.Type, o, 2))
	}
	c.Value = v
}

// addDotted adds a local typedef whose name looks include-qualified
// ("<include>.<Name>") and a struct field referring to it. Thrift scoping looks
// a full name up locally before splitting it at the first dot.
// addCapsWords uses one upper-case word in two roles: as an enum item or constant (a Go name
// is made from it one way) and as a function, field or type name (another way), possibly in
// different files.
func (p *Program) addCapsWords() {
	words := []string{"FETCH", "STORE", "OK", "ACK", "PING"}
	rot := ch("caps.words", len(words))
	w1, w2 := words[rot], words[(rot+1)%len(words)]
	fa := p.Files[ch("caps.item-file", len(p.Files))]
	fb := p.Files[ch("caps.user-file", len(p.Files))]
	asConst := ch("caps.as-constant", 2) == 1
	if asConst {
		p.add(fa, &Def{Kind: KConst, Name: w1, Type: &TypeRef{Base: "i32"}, Value: &ConstVal{Kind: CInt, Int: 7}})
	} else {
		p.add(fa, &Def{Kind: KEnum, Name: p.name("Eop"), Items: []EnumItem{{Name: w1, Value: 0}, {Name: w2, Value: 1}}})
	}
	user := ch("caps.user", 3)
	if user == 2 && asConst && fa == fb {
		user = 1 // a type and a constant of one name in one file: not wanted here
	}
	switch user {
	case 0:
		p.add(fb, &Def{Kind: KService, Name: p.name("Cache"), Funcs: []*Func{{Name: w1}, {Name: w2, Args: []*FieldDef{{ID: 1, Name: w1, Req: ReqOptional, Type: &TypeRef{Base: "i32"}}}}}})
	case 1:
		p.add(fb, &Def{Kind: KStruct, Name: p.name("S"), Fields: []*FieldDef{{ID: 1, Name: w1, Req: ReqOptional, Type: &TypeRef{Base: "i32"}}, {ID: 2, Name: w2, Req: ReqOptional, Type: &TypeRef{Base: "string"}}}})
	default:
		p.add(fb, &Def{Kind: KStruct, Name: w1, Fields: []*FieldDef{{ID: 1, Name: "v", Req: ReqOptional, Type: &TypeRef{Base: "i32"}}}})
	}
}

func (p *Program) addDotted(o Options) {
	var cands []*File
	for _, f := range p.Files {
		if len(f.Includes) > 0 {
			cands = append(cands, f)
		}
	}
	if len(cands) == 0 {
		return
	}
	f := cands[ch("dotted.file", len(cands))]
	inc := p.Files[f.Includes[ch("dotted.include", len(f.Includes))]]
	name := inc.Base + "." + p.name("Loc")
	// rarely: shadow a name that really exists in the include
	if simrt.Flip("dotted.shadow", 0.3) {
		var types []*Def
		for _, d := range inc.Defs {
			if d.Kind == KStruct {
				types = append(types, d)
			}
		}
		if len(types) > 0 {
			name = inc.Base + "." + types[ch("dotted.shadowed", len(types))].Name
		}
	}
	td := p.add(f, &Def{Kind: KTypedef, Name: name, Type: &TypeRef{Base: "i64"}})
	// every reference rendered as that text in f now designates the local typedef
	for _, d := range f.Defs {
		p.retarget(f, d, name, td)
	}
	p.add(f, &Def{Kind: KStruct, Name: p.name("S"), Fields: []*FieldDef{{ID: 1, Name: "dotted1", Req: ReqOptional, Type: &TypeRef{Ref: &Ref{f.Index, name}}}}})
	// a local service whose dotted name reads like a service of the include: `extends inc.Name`
	// written in f designates the local one
	if !o.NoServices && simrt.Flip("dotted.service", 0.5) {
		var svcs []*Def
		for _, d := range inc.Defs {
			if d.Kind == KService && !strings.Contains(d.Name, ".") {
				svcs = append(svcs, d)
			}
		}
		sname := inc.Base + "." + p.name("LocSvc")
		if len(svcs) > 0 && simrt.Flip("dotted.service-shadow", 0.6) {
			sname = inc.Base + "." + svcs[ch("dotted.service-shadowed", len(svcs))].Name
		}
		local := p.add(f, &Def{Kind: KService, Name: sname, Funcs: []*Func{{Name: fmt.Sprintf("fn%d_loc", p.seq)}}})
		for _, d := range f.Defs {
			if d.Kind == KService && d.Parent != nil && d.ParentVia == 0 && d.Parent.File != f.Index && p.Files[d.Parent.File].Base+"."+d.Parent.Name == sname {
				d.Parent = &Ref{local.File, local.Name}
			}
		}
		// ... also when the name is written in another file with f as first qualifier (`f.inc.Name`)
		for _, g := range p.Files {
			for _, d := range g.Defs {
				if d.Kind == KService && d.Parent != nil && d.ParentVia-1 == f.Index && p.Files[d.Parent.File].Base+"."+d.Parent.Name == sname {
					d.Parent, d.ParentVia = &Ref{local.File, local.Name}, 0
				}
			}
		}
		p.add(f, &Def{Kind: KService, Name: p.name("Svc"), Parent: &Ref{local.File, local.Name}, Funcs: []*Func{{Name: fmt.Sprintf("fn%d_child", p.seq)}}})
	}
	// a constant whose dotted name reads like an item of a local enum: `Ed.IT` written in f
	// designates the constant
	if o.Consts && simrt.Flip("dotted.constant", 0.5) {
		e := p.add(f, &Def{Kind: KEnum, Name: p.name("Ed")})
		for i := 0; i < 2; i++ {
			e.Items = append(e.Items, EnumItem{Name: fmt.Sprintf("%s_D%d", strings.ToUpper(e.Name), i), Value: i})
		}
		c := p.add(f, &Def{Kind: KConst, Name: e.Name + "." + e.Items[ch("dotted.item", 2)].Name, Type: &TypeRef{Base: "i32"}, Value: &ConstVal{Kind: CInt, Int: int64(70 + ch("dotted.value", 9))}})
		p.add(f, &Def{Kind: KConst, Name: p.name("Cz"), Type: &TypeRef{Base: "i32"}, Value: &ConstVal{Kind: CRef, Ref: &Ref{c.File, c.Name}}})
		p.add(f, &Def{Kind: KStruct, Name: p.name("S"), Fields: []*FieldDef{{ID: 1, Name: "dz", Req: ReqOptional, Type: &TypeRef{Base: "i32"}, Default: &ConstVal{Kind: CRef, Ref: &Ref{c.File, c.Name}}}}})
	}
}

func (p *Program) retarget(f *File, d *Def, text string, to *Def) {
	var fix func(t *TypeRef)
	fix = func(t *TypeRef) {
		if t == nil {
			return
		}
		if t.Ref != nil && t.Ref.File != f.Index && p.refText(f.Index, t.Ref) == text {
			t.Ref = &Ref{to.File, to.Name}
		}
		fix(t.Key)
		fix(t.Elem)
	}
	fix(d.Type)
	for _, fd := range d.Fields {
		fix(fd.Type)
	}
	for _, fn := range d.Funcs {
		fix(fn.Ret)
		for _, a := range fn.Args {
			fix(a.Type)
		}
		for _, a := range fn.Excs {
			fix(a.Type)
		}
	}
}

// injectInvalid makes the program uncompilable in one place.
func (p *Program) injectInvalid() {
	f := p.Files[ch("invalid.file", len(p.Files))]
	switch ch("invalid.kind", 17) {
	case 16:
		// a definition that carries the name of one of the file's includes
		var incl []*File
		for _, g := range p.Files {
			if len(g.Includes) > 0 {
				incl = append(incl, g)
			}
		}
		if len(incl) > 0 {
			g := incl[ch("invalid.clash-file", len(incl))]
			name := p.Files[g.Includes[ch("invalid.clash-include", len(g.Includes))]].Base
			switch ch("invalid.clash-kind", 4) {
			case 0:
				p.add(g, &Def{Kind: KEnum, Name: name, Items: []EnumItem{{Name: "LIMIT", Value: 0}}})
			case 1:
				p.add(g, &Def{Kind: KStruct, Name: name, Fields: []*FieldDef{{ID: 1, Name: "x", Req: ReqOptional, Type: &TypeRef{Base: "i32"}}}})
			case 2:
				p.add(g, &Def{Kind: KTypedef, Name: name, Type: &TypeRef{Base: "string"}})
			default:
				p.add(g, &Def{Kind: KConst, Name: name, Type: &TypeRef{Base: "i32"}, Value: &ConstVal{Kind: CInt, Int: 3}})
			}
			p.Invalid = "a definition of " + g.RelPath() + " is named like its include " + name
			return
		}
		fallthrough
	case 15:
		// an enum item spelled in another case: names are case sensitive, no item is meant
		e := p.add(f, &Def{Kind: KEnum, Name: p.name("E"), Items: []EnumItem{{Name: "RED", Value: 0}, {Name: "Green", Value: 1}, {Name: "blue", Value: 2}}})
		bad := []string{"red", "Red", "GREEN", "green", "BLUE", "Blue"}[ch("invalid.case-variant", 6)]
		v := &ConstVal{Kind: CRef, Ref: &Ref{e.File, e.Name}, Item: bad}
		switch ch("invalid.case-where", 3) {
		case 0:
			p.add(f, &Def{Kind: KConst, Name: p.name("C"), Type: &TypeRef{Ref: &Ref{e.File, e.Name}}, Value: v})
		case 1:
			p.add(f, &Def{Kind: KConst, Name: p.name("C"), Type: &TypeRef{Base: "list", Elem: &TypeRef{Ref: &Ref{e.File, e.Name}}}, Value: &ConstVal{Kind: CList, Items: []*ConstVal{v}}})
		default:
			p.add(f, &Def{Kind: KStruct, Name: p.name("S"), Fields: []*FieldDef{{ID: 1, Name: "c", Req: ReqOptional, Type: &TypeRef{Ref: &Ref{e.File, e.Name}}, Default: v}}})
		}
		p.Invalid = "enum item " + bad + " does not exist (only in another case) in " + f.RelPath()
	case 14:
		// a struct constant referred to where another struct with an incompatible field of the same name is declared
		a := p.add(f, &Def{Kind: KStruct, Name: p.name("S"), Fields: []*FieldDef{{ID: 1, Name: "v", Req: ReqOptional, Type: &TypeRef{Base: "string"}}}})
		b := p.add(f, &Def{Kind: KStruct, Name: p.name("S"), Fields: []*FieldDef{{ID: 1, Name: "v", Req: ReqOptional, Type: &TypeRef{Base: "i32"}}}})
		ca := p.add(f, &Def{Kind: KConst, Name: p.name("C"), Type: &TypeRef{Ref: &Ref{a.File, a.Name}},
			Value: &ConstVal{Kind: CStruct, Items: []*ConstVal{{Kind: CString, Str: "v"}, {Kind: CString, Str: "text"}}}})
		p.add(f, &Def{Kind: KConst, Name: p.name("C"), Type: &TypeRef{Ref: &Ref{b.File, b.Name}}, Value: &ConstVal{Kind: CRef, Ref: &Ref{ca.File, ca.Name}}})
		p.Invalid = "constant of struct " + a.Name + " used where struct " + b.Name + " is declared in " + f.RelPath()
	case 12, 13:
		var enums []*Def
		for _, d := range f.Defs {
			if d.Kind == KEnum && len(d.Items) > 0 && !strings.Contains(d.Name, ".") {
				enums = append(enums, d)
			}
		}
		if len(enums) == 0 {
			enums = append(enums, p.add(f, &Def{Kind: KEnum, Name: p.name("E"), Items: []EnumItem{{Name: p.name("IT"), Value: 0}, {Name: p.name("IT"), Value: 1}}}))
		}
		e := enums[ch("invalid.enum", len(enums))]
		it := e.Items[ch("invalid.item", len(e.Items))]
		if ch("invalid.enum-ref-kind", 2) == 0 {
			// an enum item qualified with a typedef of the enum: `typedef E T; const T c = T.ITEM`
			td := p.add(f, &Def{Kind: KTypedef, Name: p.name("Te"), Type: &TypeRef{Ref: &Ref{e.File, e.Name}}})
			bad := &ConstVal{Kind: CRef, Ref: &Ref{td.File, td.Name}, Item: it.Name}
			if ch("invalid.ref-site", 2) == 0 {
				p.add(f, &Def{Kind: KConst, Name: p.name("C"), Type: &TypeRef{Ref: &Ref{td.File, td.Name}}, Value: bad})
			} else {
				// ... or as the default of a field, which is resolved while the types are linked
				// (declared as the typedef, or as a plain i32 so that nothing else names the typedef)
				ft := &TypeRef{Ref: &Ref{td.File, td.Name}}
				if ch("invalid.ref-field-type", 2) == 1 {
					ft = &TypeRef{Base: "i32"}
				}
				p.add(f, &Def{Kind: KStruct, Name: p.name("S"), Fields: []*FieldDef{{ID: 1, Name: "tone", Req: ReqOptional, Type: ft, Default: bad}}})
			}
			p.Invalid = "enum item qualified with a typedef name in " + f.RelPath()
		} else {
			// an item of one enum where another enum is declared
			other := p.add(f, &Def{Kind: KEnum, Name: p.name("E"), Items: []EnumItem{{Name: p.name("IT"), Value: 0}, {Name: p.name("IT"), Value: 1}}})
			p.add(f, &Def{Kind: KConst, Name: p.name("C"), Type: &TypeRef{Ref: &Ref{other.File, other.Name}}, Value: &ConstVal{Kind: CRef, Ref: &Ref{e.File, e.Name}, Item: it.Name}})
			p.Invalid = "item of enum " + e.Name + " given for enum " + other.Name + " in " + f.RelPath()
		}
	case 6:
		// a cycle of typedefs (no struct on the way), possibly through a container
		n := 1 + ch("invalid.cycle-len", 3)
		names := make([]string, n)
		for i := range names {
			names[i] = p.name("Tc")
		}
		wrap := ch("invalid.cycle-wrap", 3)
		// where two files include each other, the cycle may run across both
		home := make([]*File, n)
		for i := range home {
			home[i] = f
		}
		if n > 1 {
			for _, j := range f.Includes {
				if g := p.Files[j]; contains(g.Includes, f.Index) && simrt.Flip("invalid.cycle-across-files", 0.6) {
					for i := 1; i < n; i += 2 {
						home[i] = g
					}
					break
				}
			}
		}
		for i := range names {
			t := &TypeRef{Ref: &Ref{home[(i+1)%n].Index, names[(i+1)%n]}}
			if i == 0 && wrap == 1 {
				t = &TypeRef{Base: "list", Elem: t}
			} else if i == 0 && wrap == 2 {
				t = &TypeRef{Base: "map", Key: &TypeRef{Base: "string"}, Elem: t}
			}
			p.add(home[i], &Def{Kind: KTypedef, Name: names[i], Type: t})
		}
		if simrt.Flip("invalid.cycle-used", 0.5) {
			k := ch("invalid.cycle-entry", n)
			p.add(home[k], &Def{Kind: KStruct, Name: p.name("S"), Fields: []*FieldDef{{ID: 1, Name: "loop", Req: ReqOptional, Type: &TypeRef{Ref: &Ref{home[k].Index, names[k]}}}}})
		}
		p.Invalid = "typedef cycle in " + f.RelPath()
	case 7:
		p.add(f, &Def{Kind: KService, Name: p.name("Svc"), Parent: &Ref{f.Index, "NoSuchService"}, Funcs: []*Func{{Name: "ping"}}})
		p.Invalid = "service extends an unknown service in " + f.RelPath()
	case 8:
		st := p.add(f, &Def{Kind: KStruct, Name: p.name("S"), Fields: []*FieldDef{{ID: 1, Name: "x", Req: ReqOptional, Type: &TypeRef{Base: "i32"}}}})
		p.add(f, &Def{Kind: KService, Name: p.name("Svc"), Funcs: []*Func{{Name: "fails", Excs: []*FieldDef{{ID: 1, Name: "err1", Req: ReqOptional, Type: &TypeRef{Ref: &Ref{st.File, st.Name}}}}}}})
		p.Invalid = "a function throws a struct that is not an exception in " + f.RelPath()
	case 9:
		if len(f.Defs) == 0 {
			p.add(f, &Def{Kind: KEnum, Name: p.name("E"), Items: []EnumItem{{Name: "ONLY", Value: 0}}})
		}
		twin := f.Defs[ch("invalid.dup-of", len(f.Defs))]
		name := twin.Name
		if i := strings.LastIndex(name, "."); i >= 0 {
			name = name[i+1:]
		}
		p.add(f, &Def{Kind: KTypedef, Name: twin.Name, Type: &TypeRef{Base: "i64"}})
		p.Invalid = "the name " + twin.Name + " is defined twice in " + f.RelPath()
	case 10:
		p.add(f, &Def{Kind: KStruct, Name: p.name("S"), Fields: []*FieldDef{
			{ID: 1, Name: "a", Req: ReqOptional, Type: &TypeRef{Base: "i32"}},
			{ID: 1, Name: "b", Req: ReqOptional, Type: &TypeRef{Base: "i32"}}}})
		p.Invalid = "two fields with the same identifier in " + f.RelPath()
	case 11:
		p.add(f, &Def{Kind: KService, Name: p.name("Svc"), Funcs: []*Func{{Name: "fire", OneWay: true, Ret: &TypeRef{Base: "i32"}}}})
		p.Invalid = "a oneway function with a return type in " + f.RelPath()
	case 3:
		p.add(f, &Def{Kind: KConst, Name: p.name("C"), Type: &TypeRef{Base: "bool"}, Value: &ConstVal{Kind: CInt, Int: 2}})
		p.Invalid = "bool constant 2 in " + f.RelPath()
	case 4:
		p.add(f, &Def{Kind: KConst, Name: p.name("C"), Type: &TypeRef{Base: "double"}, Value: &ConstVal{Kind: CString, Str: "1.5"}})
		p.Invalid = "string literal for a double constant in " + f.RelPath()
	case 5:
		var enums []*Def
		for _, d := range f.Defs {
			if d.Kind == KEnum {
				enums = append(enums, d)
			}
		}
		if len(enums) == 0 {
			p.add(f, &Def{Kind: KConst, Name: p.name("C"), Type: &TypeRef{Base: "i32"}, Value: &ConstVal{Kind: CBool, Bool: true}})
			p.Invalid = "bool literal for an i32 constant in " + f.RelPath()
			break
		}
		e := enums[ch("invalid.enum", len(enums))]
		p.add(f, &Def{Kind: KConst, Name: p.name("C"), Type: &TypeRef{Ref: &Ref{e.File, e.Name}}, Value: &ConstVal{Kind: CInt, Int: 9999}})
		p.Invalid = "integer that is no value of enum " + e.Name + " in " + f.RelPath()
	case 0:
		p.add(f, &Def{Kind: KStruct, Name: p.name("S"), Fields: []*FieldDef{{ID: 1, Name: "bad", Req: ReqOptional, Type: &TypeRef{Ref: &Ref{f.Index, "NoSuchType"}}}}})
		p.Invalid = "unresolvable type reference in " + f.RelPath()
	case 1:
		p.add(f, &Def{Kind: KConst, Name: p.name("C"), Type: &TypeRef{Base: "i32"}, Value: &ConstVal{Kind: CRef, Ref: &Ref{f.Index, "NO_SUCH_CONST"}}})
		p.Invalid = "unresolvable constant reference in " + f.RelPath()
	default:
		p.add(f, &Def{Kind: KConst, Name: p.name("C"), Type: &TypeRef{Base: "i32"}, Value: &ConstVal{Kind: CString, Str: "not a number"}})
		p.Invalid = "ill-typed constant in " + f.RelPath()
	}
}

func contains(xs []int, x int) bool {
	for _, y := range xs {
		if y == x {
			return true
		}
	}
	return false
}

// shuffle permutes by choices; all-zero choices keep the order.
func shuffle[T any](xs []T, label string) {
	n := len(xs)
	for i := 0; i < n-1; i++ {
		j := simrt.ChoiceBias(label, n-i, 0.6)
		if j > 0 {
			v := xs[i+j]
			copy(xs[i+1:i+j+1], xs[i:i+j])
			xs[i] = v
		}
	}
}

func (p *Program) name(prefix string) string {
	p.seq++
	if p.sameNames && p.curFile != nil && simrt.Flip("name.reuse", 0.2) {
		// reuse a name that another file already uses for the same kind of thing
		var cands []string
		for _, f := range p.Files {
			if f == p.curFile {
				continue
			}
			for _, d := range f.Defs {
				if strings.HasPrefix(d.Name, prefix) && !strings.Contains(d.Name, ".") && p.Lookup(&Ref{p.curFile.Index, d.Name}) == nil {
					cands = append(cands, d.Name)
				}
			}
		}
		if len(cands) > 0 {
			return cands[ch("name.reuse-pick", len(cands))]
		}
	}
	return fmt.Sprintf("%s%d", prefix, p.seq)
}

func (p *Program) add(f *File, d *Def) *Def {
	d.File = f.Index
	p.seq++
	d.Order = p.seq
	f.Defs = append(f.Defs, d)
	return d
}

// visible returns the definitions file f may refer to: its own and those of
// directly included files, restricted to kinds.
func (p *Program) visible(f *File, kinds ...DefKind) []*Def {
	var out []*Def
	want := func(k DefKind) bool {
		for _, x := range kinds {
			if x == k {
				return true
			}
		}
		return false
	}
	for _, d := range f.Defs {
		if want(d.Kind) {
			out = append(out, d)
		}
	}
	for _, j := range f.Includes {
		for _, d := range p.Files[j].Defs {
			if want(d.Kind) {
				out = append(out, d)
			}
		}
	}
	sort.SliceStable(out, func(a, b int) bool { return out[a].Order < out[b].Order })
	return out
}

var baseTypes = []string{"i32", "string", "bool", "i64", "double", "i16", "byte", "binary"}

// genType draws a type reference usable from file f.
func (p *Program) genType(f *File, depth int, o Options) *TypeRef {
	named := p.visible(f, KTypedef, KEnum, KStruct, KUnion)
	k := ch("type.kind", 4)
	switch {
	case k == 1 && len(named) > 0:
		d := named[ch("type.ref", len(named))]
		return &TypeRef{Ref: &Ref{d.File, d.Name}}
	case k == 2 && depth < 2:
		c := ch("type.container", 3)
		switch c {
		case 0:
			return &TypeRef{Base: "list", Elem: p.genType(f, depth+1, o)}
		case 1:
			return &TypeRef{Base: "set", Elem: p.genKeyType(f), Slice: o.Annotations && simrt.Flip("type.set-as-slice", 0.25)}
		default:
			return &TypeRef{Base: "map", Key: p.genKeyType(f), Elem: p.genType(f, depth+1, o)}
		}
	case k == 3 && len(named) > 0:
		d := named[len(named)-1-ch("type.ref-recent", len(named))]
		return &TypeRef{Ref: &Ref{d.File, d.Name}}
	}
	return &TypeRef{Base: baseTypes[ch("type.base", len(baseTypes))]}
}

func (p *Program) genKeyType(f *File) *TypeRef {
	if p.unhashable && simrt.Flip("type.key-unhashable", 0.2) {
		switch ch("type.key-unhashable-kind", 4) {
		case 0:
			return &TypeRef{Base: "list", Elem: &TypeRef{Base: "i32"}}
		case 1:
			return &TypeRef{Base: "set", Elem: &TypeRef{Base: "string"}}
		case 2:
			return &TypeRef{Base: "map", Key: &TypeRef{Base: "string"}, Elem: &TypeRef{Base: "i64"}}
		default:
			if structs := p.visible(f, KStruct); len(structs) > 0 {
				d := structs[ch("type.key-struct", len(structs))]
				return &TypeRef{Ref: &Ref{d.File, d.Name}}
			}
			return &TypeRef{Base: "list", Elem: &TypeRef{Base: "string"}}
		}
	}
	enums := p.visible(f, KEnum)
	if len(enums) > 0 && simrt.Flip("type.key-enum", 0.2) {
		d := enums[ch("type.key-ref", len(enums))]
		return &TypeRef{Ref: &Ref{d.File, d.Name}}
	}
	ks := []string{"string", "i32", "i64", "i16", "double"}
	return &TypeRef{Base: ks[ch("type.key", len(ks))]}
}

func (p *Program) genFields(f *File, prefix string, max int, o Options, union bool) []*FieldDef {
	n := ch("fields.n", max+1)
	if union && n == 0 {
		n = 1
	}
	var out []*FieldDef
	id := 0
	for i := 0; i < n; i++ {
		id += 1 + ch("field.id-gap", 3)
		fd := &FieldDef{ID: id, Name: fmt.Sprintf("%s%d", prefix, id), Type: p.genType(f, 0, o)}
		if union {
			fd.Req = ReqOptional
		} else if prefix == "arg" {
			fd.Req = ReqDefault
			if o.Defaults {
				switch p.KindOf(fd.Type) {
				case "bool", "int", "double", "string", "enum":
					if simrt.Flip("arg.default", 0.15) {
						fd.Default = p.genValue(f, fd.Type, o, 1)
					}
				}
			}
		} else {
			fd.Req = ReqOptional - Req(ch("field.required", 2)) // optional (0) or required (1)
			if o.Defaults && !union {
				switch p.KindOf(fd.Type) {
				case "bool", "int", "double", "string", "enum":
					if simrt.Flip("field.default", 0.35) {
						fd.Default = p.genValue(f, fd.Type, o, 1)
					}
				case "struct":
					if o.StructConsts && fd.Req == ReqOptional && p.valuable(fd.Type, 1) && simrt.Flip("field.struct-default", 0.2) {
						fd.Default = p.genValue(f, fd.Type, o, 1)
					}
				case "list", "set", "map":
					if p.valuable(fd.Type, 1) && simrt.Flip("field.container-default", 0.15) {
						fd.Default = p.genValue(f, fd.Type, o, 1)
					}
				}
			}
		}
		if o.Annotations && prefix == "fld" && simrt.Flip("field.annotated", 0.2) {
			switch ch("field.annotation", 6) {
			case 0:
				fd.Annot = fmt.Sprintf(`(go.tag = "json:\"j%d\"")`, id)
			case 1:
				if ch("field.tag-variant", 2) == 1 {
					// both omitempty and !omitempty next to further options
					fd.Annot = fmt.Sprintf(`(go.tag = "json:\"v%d,!omitempty,omitempty,string,unit\" db:\"c%d\"")`, id, id)
				} else {
					fd.Annot = fmt.Sprintf(`(go.tag = "json:\"-\" yaml:\"y%d,flow\"")`, id)
				}
			case 2:
				fd.Annot = `(go.nolog = "true")`
			case 3:
				fd.Annot = `(go.redact = "true")`
			case 4:
				fd.Annot = fmt.Sprintf(`(go.label = "lbl%d")`, id)
			default:
				fd.Annot = fmt.Sprintf(`(go.tag = "db:\"c%d\"", go.label = "dbl%d")`, id, id)
			}
		}
		out = append(out, fd)
	}
	if len(out) > 1 && simrt.Flip("fields.shuffle", 0.3) {
		// declaration order is not identifier order
		shuffle(out, "fields.order")
	}
	return out
}

func (p *Program) genDef(f *File, o Options) {
	kinds := []DefKind{KStruct, KTypedef, KEnum, KService}
	if o.NoServices {
		kinds = kinds[:3]
	}
	if o.Unions {
		kinds = append(kinds, KUnion)
	}
	if o.Exceptions {
		kinds = append(kinds, KException)
	}
	if o.Consts {
		kinds = append(kinds, KConst)
	}
	k := kinds[ch("def.kind", len(kinds))]
	switch k {
	case KStruct:
		p.add(f, &Def{Kind: KStruct, Name: p.name("S"), Fields: p.genFields(f, "fld", 4, o, false)})
	case KUnion:
		p.add(f, &Def{Kind: KUnion, Name: p.name("U"), Fields: p.genFields(f, "alt", 3, o, true)})
	case KException:
		p.add(f, &Def{Kind: KException, Name: p.name("X"), Fields: p.genFields(f, "why", 2, o, false)})
	case KTypedef:
		if simrt.Flip("typedef.keyed-map", 0.12) {
			// a typedef of a container in which one typedef'd scalar occurs twice:
			// `typedef string Tk; typedef map<Tk, set<Tk>> Tm` (no cycle in that)
			var keys []*Def
			for _, d := range p.visible(f, KTypedef) {
				if d.Type != nil && d.Type.Ref == nil && (d.Type.Base == "string" || d.Type.Base == "i32" || d.Type.Base == "i64") {
					keys = append(keys, d)
				}
			}
			var kd *Def
			if len(keys) > 0 && simrt.Flip("typedef.keyed-map-reuse", 0.6) {
				kd = keys[ch("typedef.keyed-map-key", len(keys))]
			} else {
				kd = p.add(f, &Def{Kind: KTypedef, Name: p.name("Tk"), Type: &TypeRef{Base: []string{"string", "i32", "i64"}[ch("typedef.key-base", 3)]}})
			}
			k := &TypeRef{Ref: &Ref{kd.File, kd.Name}}
			var t *TypeRef
			switch ch("typedef.keyed-map-shape", 4) {
			case 0:
				t = &TypeRef{Base: "map", Key: k, Elem: k}
			case 1:
				t = &TypeRef{Base: "map", Key: k, Elem: &TypeRef{Base: "list", Elem: k}}
			case 2:
				t = &TypeRef{Base: "list", Elem: &TypeRef{Base: "map", Key: k, Elem: &TypeRef{Base: "set", Elem: k}}}
			default:
				t = &TypeRef{Base: "map", Key: k, Elem: &TypeRef{Base: "map", Key: k, Elem: &TypeRef{Base: "i32"}}}
			}
			p.add(f, &Def{Kind: KTypedef, Name: p.name("Tm"), Type: t})
			break
		}
		p.add(f, &Def{Kind: KTypedef, Name: p.name("Td"), Type: p.genType(f, 0, o)})
	case KEnum:
		d := &Def{Kind: KEnum, Name: p.name("E")}
		n := 1 + ch("enum.items", 4)
		val := 0
		for i := 0; i < n; i++ {
			it := EnumItem{Name: fmt.Sprintf("%s_I%d", strings.ToUpper(d.Name), i)}
			if o.SameNames && simrt.Flip("enum.shared-item-name", 0.15) {
				it.Name = fmt.Sprintf("SHARED_I%d", i) // the same item name may appear in several enums
			}
			if simrt.Flip("enum.explicit", 0.3) {
				val += 1 + ch("enum.gap", 5)
				it.Expl = true
			} else if i > 0 {
				val++
			}
			it.Value = val
			d.Items = append(d.Items, it)
		}
		if n > 1 && simrt.Flip("enum.values-not-ascending", 0.2) {
			// explicit values in no particular order (HIGH = 10, LOW = 1, MID = 5): all distinct
			for i := range d.Items {
				d.Items[i].Expl = true
			}
			for i := n - 1; i > 0; i-- {
				j := ch("enum.value-order", i+1)
				d.Items[i].Value, d.Items[j].Value = d.Items[j].Value, d.Items[i].Value
			}
		}
		p.add(f, d)
	case KService:
		p.genService(f, o)
	case KConst:
		p.genConst(f, o)
	}
}

func (p *Program) genService(f *File, o Options) {
	d := &Def{Kind: KService, Name: p.name("Svc")}
	svcs := p.visible(f, KService)
	if len(svcs) > 0 && simrt.Flip("svc.extends", 0.4) {
		par := svcs[ch("svc.parent", len(svcs))]
		d.Parent = &Ref{par.File, par.Name}
	}
	nf := 1 + ch("svc.funcs", 3)
	for i := 0; i < nf; i++ {
		fn := &Func{Name: fmt.Sprintf("fn%d_%d", p.seq, i)}
		fn.Args = p.genFields(f, "arg", 3, o, false)
		if simrt.Flip("fn.oneway", 0.1) {
			fn.OneWay = true
		} else {
			if simrt.Flip("fn.ret", 0.7) {
				fn.Ret = p.genType(f, 0, o)
			}
			excs := p.visible(f, KException)
			if len(excs) > 0 && simrt.Flip("fn.exc", 0.5) {
				// one exception as a rule; now and then several, the same type possibly twice
				n := 1
				if simrt.Flip("fn.exc-many", 0.3) {
					n = 2 + ch("fn.exc-n", 4)
				}
				for k := 1; k <= n; k++ {
					x := excs[ch("fn.exc-ref", len(excs))]
					fn.Excs = append(fn.Excs, &FieldDef{ID: k, Name: fmt.Sprintf("err%d", k), Req: ReqOptional, Type: &TypeRef{Ref: &Ref{x.File, x.Name}}})
				}
			}
		}
		d.Funcs = append(d.Funcs, fn)
	}
	p.add(f, d)
}

// annotText is a definition's annotations as they follow its closing brace.
func annotText(d *Def) string {
	if d.Annot == "" {
		return ""
	}
	return " " + d.Annot
}

// RootOf follows typedefs to the ultimate non-typedef type.
func (p *Program) RootOf(t *TypeRef) *TypeRef {
	for i := 0; i < 64 && t != nil && t.Ref != nil; i++ {
		d := p.Lookup(t.Ref)
		if d == nil || d.Kind != KTypedef {
			return t
		}
		t = d.Type
	}
	return t
}

// Lookup finds the definition a Ref designates.
func (p *Program) Lookup(r *Ref) *Def {
	if r == nil || r.File < 0 || r.File >= len(p.Files) || p.Files[r.File].Deleted {
		return nil
	}
	for _, d := range p.Files[r.File].Defs {
		if d.Name == r.Name && !d.Removed {
			return d
		}
	}
	return nil
}

// Kind classifies the root of a type for constant casting:
// bool int double string binary enum list set map struct.
func (p *Program) KindOf(t *TypeRef) string {
	rt := p.RootOf(t)
	if rt == nil {
		return "void"
	}
	if rt.Ref != nil {
		d := p.Lookup(rt.Ref)
		if d == nil {
			return "unknown"
		}
		if d.Kind == KEnum {
			return "enum"
		}
		if d.Kind == KStruct {
			return "struct"
		}
		return "structlike"
	}
	switch rt.Base {
	case "bool", "double", "string", "binary", "list", "set", "map":
		return rt.Base
	}
	return "int"
}

// constTypes draws a declared type suitable for a constant or a default.
func (p *Program) genConstType(f *File, o Options) *TypeRef {
	var named []*Def
	for _, d := range p.visible(f, KTypedef, KEnum) {
		switch p.KindOf(&TypeRef{Ref: &Ref{d.File, d.Name}}) {
		case "bool", "int", "double", "string", "enum":
			named = append(named, d)
		}
	}
	k := ch("const.type", 11)
	if k >= 9 && o.StructConsts {
		var ss []*Def
		for _, d := range p.visible(f, KStruct) {
			if p.constructible(d, 0) {
				ss = append(ss, d)
			}
		}
		if len(ss) > 0 {
			d := ss[ch("const.struct-type", len(ss))]
			return &TypeRef{Ref: &Ref{d.File, d.Name}}
		}
	}
	switch {
	case k == 0 && len(named) > 0:
		d := named[ch("const.type-ref", len(named))]
		return &TypeRef{Ref: &Ref{d.File, d.Name}}
	case k == 1:
		return &TypeRef{Base: "string"}
	case k == 2:
		return &TypeRef{Base: "bool"}
	case k == 3:
		return &TypeRef{Base: "double"}
	case k == 4:
		return &TypeRef{Base: "i64"}
	case k == 5:
		return &TypeRef{Base: "list", Elem: p.genScalarType(f, named)}
	case k == 6:
		return &TypeRef{Base: "set", Elem: &TypeRef{Base: []string{"string", "i32"}[ch("const.set-elem", 2)]}}
	case k == 7:
		return &TypeRef{Base: "map", Key: &TypeRef{Base: "string"}, Elem: p.genScalarType(f, named)}
	}
	return &TypeRef{Base: "i32"}
}

// constructible: a struct literal for d can be written with the value kinds the
// generator knows (required fields must be of such kinds; depth-limited).
func (p *Program) constructible(d *Def, depth int) bool {
	if d == nil || d.Kind != KStruct || depth > 2 {
		return false
	}
	for _, fd := range d.Fields {
		if fd.Req == ReqRequired && fd.Default == nil && !p.valuable(fd.Type, depth) {
			return false
		}
	}
	return true
}

func (p *Program) valuable(t *TypeRef, depth int) bool {
	switch p.KindOf(t) {
	case "bool", "int", "double", "string", "enum":
		return true
	case "list", "set":
		return p.valuable(p.RootOf(t).Elem, depth+1)
	case "map":
		rt := p.RootOf(t)
		return p.valuable(rt.Key, depth+1) && p.valuable(rt.Elem, depth+1)
	case "struct":
		return p.constructible(p.Lookup(p.RootOf(t).Ref), depth+1)
	}
	return false
}

func (p *Program) genScalarType(f *File, named []*Def) *TypeRef {
	if len(named) > 0 && simrt.Flip("const.scalar-named", 0.3) {
		d := named[ch("const.type-ref", len(named))]
		return &TypeRef{Ref: &Ref{d.File, d.Name}}
	}
	bs := []string{"i32", "string", "double", "bool", "i16"}
	return &TypeRef{Base: bs[ch("const.scalar", len(bs))]}
}

// genValue draws a constant value castable to t, from literals and (when
// allowed) references to visible constants and enum items.
func (p *Program) genValue(f *File, t *TypeRef, o Options, depth int) *ConstVal {
	kind := p.KindOf(t)
	if o.ConstRefs && depth < 3 && simrt.Flip("val.ref", 0.35) {
		crossCast := simrt.Flip("val.ref-cross-cast", 0.4)
		var cands []*Def
		for _, c := range p.visible(f, KConst) {
			ck := p.KindOf(c.Type)
			ok := ck == kind
			if kind == "double" && ck == "int" {
				ok = true
			}
			if ok && (kind == "enum" || kind == "struct") {
				ok = sameRef(p.RootOf(t).Ref, p.RootOf(c.Type).Ref)
			}
			if ok && (kind == "list" || kind == "set" || kind == "map") {
				ok = p.TypeText(0, p.RootOf(t)) == p.TypeText(0, p.RootOf(c.Type)) && noNamed(p.RootOf(t))
			}
			if !ok && crossCast && kind != "struct" && kind != "structlike" {
				// a constant of another declared type whose value can be cast to t all the same
				// (list<i32> [0, 1] used as list<bool>, an i32 used as an enum or a double, ...)
				ok = p.castableRef(c, t)
			}
			if ok {
				cands = append(cands, c)
			}
		}
		if len(cands) > 0 {
			c := cands[ch("val.ref-pick", len(cands))]
			return &ConstVal{Kind: CRef, Ref: &Ref{c.File, c.Name}}
		}
	}
	switch kind {
	case "bool":
		if simrt.Flip("val.bool-int", 0.2) {
			return &ConstVal{Kind: CInt, Int: int64(ch("val.bool01", 2))}
		}
		return &ConstVal{Kind: CBool, Bool: ch("val.bool", 2) == 1}
	case "int":
		return &ConstVal{Kind: CInt, Int: int64(ch("val.int", 200)) - 20}
	case "double":
		if simrt.Flip("val.dbl-int", 0.3) {
			return &ConstVal{Kind: CInt, Int: int64(ch("val.int", 200))}
		}
		return &ConstVal{Kind: CDouble, Dbl: fmt.Sprintf("%d.%d", ch("val.dbl", 100), 1+ch("val.dbl-frac", 9))}
	case "string":
		return &ConstVal{Kind: CString, Str: fmt.Sprintf("s%d", ch("val.str", 50))}
	case "enum":
		e := p.Lookup(p.RootOf(t).Ref)
		it := e.Items[ch("val.item", len(e.Items))]
		if simrt.Flip("val.enum-int", 0.25) || !(e.File == f.Index || contains(f.Includes, e.File)) {
			// an enum that is not in scope by name can only be given by value
			return &ConstVal{Kind: CInt, Int: int64(it.Value)}
		}
		return &ConstVal{Kind: CRef, Ref: &Ref{e.File, e.Name}, Item: it.Name}
	case "list", "set":
		rt := p.RootOf(t)
		v := &ConstVal{Kind: CList}
		n := ch("val.list-n", 4)
		for i := 0; i < n; i++ {
			v.Items = append(v.Items, p.genValue(f, rt.Elem, o, depth+1))
		}
		return v
	case "struct":
		d := p.Lookup(p.RootOf(t).Ref)
		v := &ConstVal{Kind: CStruct}
		for _, fd := range d.Fields {
			need := fd.Req == ReqRequired && fd.Default == nil
			if !p.valuable(fd.Type, depth+1) {
				continue
			}
			if need || simrt.Flip("val.struct-field", 0.5) {
				v.Items = append(v.Items, &ConstVal{Kind: CString, Str: fd.Name}, p.genValue(f, fd.Type, o, depth+1))
			}
		}
		return v
	case "map":
		rt := p.RootOf(t)
		v := &ConstVal{Kind: CMap}
		n := ch("val.map-n", 3)
		for i := 0; i < n; i++ {
			v.Items = append(v.Items, p.genValue(f, rt.Key, o, depth+1), p.genValue(f, rt.Elem, o, depth+1))
		}
		return v
	}
	return &ConstVal{Kind: CInt, Int: 0}
}

// castableRef asks the reference model whether constant c, referred to where a
// value of type t is wanted, casts without error.
func (p *Program) castableRef(c *Def, t *TypeRef) (ok bool) {
	defer func() {
		if recover() != nil {
			ok = false
		}
	}()
	if c.Value == nil || c.Type == nil {
		return false
	}
	cv, err := p.Link(c.Value, c.Type)
	if err != nil {
		return false
	}
	_, err = p.relink(cv, t)
	return err == nil
}

func sameRef(a, b *Ref) bool { return a != nil && b != nil && a.File == b.File && a.Name == b.Name }

func noNamed(t *TypeRef) bool {
	if t == nil {
		return true
	}
	if t.Ref != nil {
		return false
	}
	return noNamed(t.Key) && noNamed(t.Elem)
}

// genConst draws a constant.
func (p *Program) genConst(f *File, o Options) {
	d := &Def{Kind: KConst, Name: p.name("C")}
	d.Type = p.genConstType(f, o)
	d.Value = p.genValue(f, d.Type, o, 0)
	p.add(f, d)
}

// ---------------------------------------------------------------------------
// rendering

func (p *Program) refText(from int, r *Ref) string {
	if r.File == from {
		return r.Name
	}
	return p.Files[r.File].Base + "." + r.Name
}

func (p *Program) TypeText(from int, t *TypeRef) string {
	switch {
	case t == nil:
		return "void"
	case t.Ref != nil:
		return p.refText(from, t.Ref)
	case t.Base == "list":
		return "list<" + p.TypeText(from, t.Elem) + ">"
	case t.Base == "set":
		if t.Slice {
			return "set<" + p.TypeText(from, t.Elem) + "> (go.type = \"slice\")"
		}
		return "set<" + p.TypeText(from, t.Elem) + ">"
	case t.Base == "map":
		return "map<" + p.TypeText(from, t.Key) + ", " + p.TypeText(from, t.Elem) + ">"
	}
	return t.Base
}

func (p *Program) ConstText(from int, v *ConstVal) string {
	switch v.Kind {
	case CInt:
		return fmt.Sprint(v.Int)
	case CDouble:
		return v.Dbl
	case CBool:
		if v.Bool {
			return "true"
		}
		return "false"
	case CString:
		return fmt.Sprintf("%q", v.Str)
	case CList:
		parts := make([]string, len(v.Items))
		for i, it := range v.Items {
			parts[i] = p.ConstText(from, it)
		}
		return "[" + strings.Join(parts, ", ") + "]"
	case CMap, CStruct:
		var parts []string
		for i := 0; i+1 < len(v.Items); i += 2 {
			parts = append(parts, p.ConstText(from, v.Items[i])+": "+p.ConstText(from, v.Items[i+1]))
		}
		return "{" + strings.Join(parts, ", ") + "}"
	case CRef:
		s := p.refText(from, v.Ref)
		if v.Item != "" {
			s += "." + v.Item
		}
		return s
	}
	return "0"
}

func (p *Program) fieldText(from int, fd *FieldDef) string {
	req := ""
	switch fd.Req {
	case ReqRequired:
		req = "required "
	case ReqOptional:
		req = "optional "
	}
	s := fmt.Sprintf("%d: %s%s %s", fd.ID, req, p.TypeText(from, fd.Type), fd.Name)
	if fd.Default != nil {
		s += " = " + p.ConstText(from, fd.Default)
	}
	if fd.Annot != "" {
		s += " " + fd.Annot
	}
	return s
}

// Render returns the IDL text of file i.
func (p *Program) Render(i int) string {
	f := p.Files[i]
	var b strings.Builder
	for _, j := range f.Includes {
		b.WriteString(fmt.Sprintf("include %q\n", relInclude(f, p.Files[j])))
	}
	if len(f.Includes) > 0 {
		b.WriteString("\n")
	}
	for _, d := range f.Defs {
		if d.Removed {
			continue
		}
		switch d.Kind {
		case KTypedef:
			fmt.Fprintf(&b, "typedef %s %s\n", p.TypeText(i, d.Type), d.Name)
		case KEnum:
			fmt.Fprintf(&b, "enum %s {\n", d.Name)
			for _, it := range d.Items {
				if it.Expl {
					fmt.Fprintf(&b, "  %s = %d,\n", it.Name, it.Value)
				} else {
					fmt.Fprintf(&b, "  %s,\n", it.Name)
				}
			}
			b.WriteString("}" + annotText(d) + "\n")
		case KStruct, KUnion, KException:
			fmt.Fprintf(&b, "%s %s {\n", d.Kind, d.Name)
			for _, fd := range d.Fields {
				fmt.Fprintf(&b, "  %s\n", p.fieldText(i, fd))
			}
			b.WriteString("}" + annotText(d) + "\n")
		case KConst:
			fmt.Fprintf(&b, "const %s %s = %s\n", p.TypeText(i, d.Type), d.Name, p.ConstText(i, d.Value))
		case KService:
			fmt.Fprintf(&b, "service %s", d.Name)
			if d.Parent != nil && d.ParentVia > 0 {
				fmt.Fprintf(&b, " extends %s.%s.%s", p.Files[d.ParentVia-1].Base, p.Files[d.Parent.File].Base, d.Parent.Name)
			} else if d.Parent != nil {
				fmt.Fprintf(&b, " extends %s", p.refText(i, d.Parent))
			}
			b.WriteString(" {\n")
			for _, fn := range d.Funcs {
				b.WriteString("  ")
				if fn.OneWay {
					b.WriteString("oneway ")
				}
				fmt.Fprintf(&b, "%s %s(", p.TypeText(i, fn.Ret), fn.Name)
				for k, a := range fn.Args {
					if k > 0 {
						b.WriteString(", ")
					}
					b.WriteString(p.fieldText(i, a))
				}
				b.WriteString(")")
				if len(fn.Excs) > 0 {
					b.WriteString(" throws (")
					for k, a := range fn.Excs {
						if k > 0 {
							b.WriteString(", ")
						}
						b.WriteString(p.fieldText(i, a))
					}
					b.WriteString(")")
				}
				b.WriteString("\n")
			}
			b.WriteString("}\n")
		}
		b.WriteString("\n")
	}
	return b.String()
}

// relInclude returns the include path of `to` as written in `from`
// (relative to the including file's directory).
func relInclude(from, to *File) string {
	fd := splitDir(from.Dir)
	td := splitDir(to.Dir)
	i := 0
	for i < len(fd) && i < len(td) && fd[i] == td[i] {
		i++
	}
	var parts []string
	for k := i; k < len(fd); k++ {
		parts = append(parts, "..")
	}
	parts = append(parts, td[i:]...)
	if to.NoExt {
		parts = append(parts, to.Base)
	} else {
		parts = append(parts, to.Base+".thrift")
	}
	s := strings.Join(parts, "/")
	if !strings.HasPrefix(s, ".") {
		s = "./" + s
	}
	return s
}

func splitDir(d string) []string {
	if d == "" {
		return nil
	}
	return strings.Split(d, "/")
}

// Services returns all service definitions of the program.
func (p *Program) Services() []*Def {
	var out []*Def
	for _, f := range p.Files {
		for _, d := range f.Defs {
			if d.Kind == KService && !d.Removed {
				out = append(out, d)
			}
		}
	}
	return out
}

// Describe renders the whole program for traces.
func (p *Program) Describe() string {
	var b strings.Builder
	for i, f := range p.Files {
		fmt.Fprintf(&b, "--- %s\n%s", f.RelPath(), p.Render(i))
	}
	return b.String()
}
