package zzmain

import "go.uber.org/thriftrw/internal/zzsim/world/wirew"

func init() {
	Engines["C03"] = Engine{Run: wirew.RunC03}
	Engines["C12"] = Engine{Run: wirew.RunC12}
	Engines["C04"] = Engine{Run: wirew.RunC04}
	Engines["C18"] = Engine{Run: wirew.RunC18}
}
