package orderw

import (
	"fmt"
	"os"
	"path/filepath"
	"runtime/debug"
	"sort"
	"strings"

	"go.uber.org/thriftrw/compile"
	"go.uber.org/thriftrw/gen"
	"go.uber.org/thriftrw/internal/zzsim/progen"
	"go.uber.org/thriftrw/internal/zzsim/simrt"
	"go.uber.org/thriftrw/internal/zzsim/world"
	"go.uber.org/thriftrw/plugin/api"
)

type captureGen struct {
	req   *api.GenerateServiceRequest
	files map[string][]byte
}

func (c *captureGen) Generate(req *api.GenerateServiceRequest) (*api.GenerateServiceResponse, error) {
	c.req = req
	return &api.GenerateServiceResponse{Files: c.files}, nil
}

// canonRequest renders a GenerateServiceRequest with module ids replaced by the
// Thrift file path and service ids by (module path, Thrift name); the lists of
// root services and root modules are compared as multisets, because their order
// comes from the same arbitrary module walk that hands out the ids.
func canonRequest(r *api.GenerateServiceRequest) (canon []string, orderKey string) {
	return CanonRequest(r)
}

// CanonRequest is exported for the plugin world's frames-intact oracle.
func CanonRequest(r *api.GenerateServiceRequest) (canon []string, orderKey string) {
	if r == nil {
		return []string{"<no request>"}, ""
	}
	modPath := map[api.ModuleID]string{}
	for id, m := range r.Modules {
		modPath[id] = m.ThriftFilePath
	}
	svcKey := map[api.ServiceID]string{}
	for id, s := range r.Services {
		svcKey[id] = modPath[s.ModuleID] + ":" + s.ThriftName
	}
	canon = append(canon, "packagePrefix="+r.PackagePrefix, "thriftRoot="+r.ThriftRoot)
	for _, m := range r.Modules {
		canon = append(canon, fmt.Sprintf("module %s importPath=%s directory=%s", m.ThriftFilePath, m.ImportPath, m.Directory))
	}
	for id, s := range r.Services {
		par := "none"
		if s.ParentID != nil {
			par = svcKey[*s.ParentID]
		}
		var fns []string
		for _, f := range s.Functions {
			fns = append(fns, f.String())
		}
		ann := ""
		if len(s.Annotations) > 0 {
			var ks []string
			for k, v := range s.Annotations {
				ks = append(ks, k+"="+v)
			}
			sort.Strings(ks)
			ann = strings.Join(ks, ",")
		}
		canon = append(canon, fmt.Sprintf("service %s name=%s parent=%s annotations=%s functions=%s", svcKey[id], s.Name, par, ann, strings.Join(fns, ";")))
	}
	var roots, rootMods []string
	for _, id := range r.RootServices {
		roots = append(roots, svcKey[id])
	}
	for _, id := range r.RootModules {
		rootMods = append(rootMods, modPath[id])
	}
	orderKey = strings.Join(roots, ",") + "|" + strings.Join(rootMods, ",")
	sort.Strings(roots)
	sort.Strings(rootMods)
	canon = append(canon, "rootServices="+strings.Join(roots, ","), "rootModules="+strings.Join(rootMods, ","))
	sort.Strings(canon)
	return canon, orderKey
}

type genOptsC10 struct {
	PluginTwoSpellings bool // the capturing plugin returns one file under two spellings
	DerivedPrefix      bool // command line only: no --pkg-prefix, the prefix is derived from two nested $GOPATH entries
	ReusedOut          bool // the output directory is not emptied between runs: it holds longer files of the same names
	NoRecurse, NoTypes, NoConstants, NoServiceHelpers, NoEmbedIDL, NoZap, NoVersionCheck, Strict bool
	OutputFile                                                                                   string
}

func (g genOptsC10) String() string {
	var on []string
	for _, x := range []struct {
		n string
		b bool
	}{{"no-recurse", g.NoRecurse}, {"no-types", g.NoTypes}, {"no-constants", g.NoConstants}, {"no-service-helpers", g.NoServiceHelpers},
		{"no-embed-idl", g.NoEmbedIDL}, {"no-zap", g.NoZap}, {"no-version-check", g.NoVersionCheck}, {"enum-text-marshal-strict", g.Strict}} {
		if x.b {
			on = append(on, x.n)
		}
	}
	if g.OutputFile != "" {
		on = append(on, "output-file="+g.OutputFile)
	}
	return "[" + strings.Join(on, " ") + "]"
}

type genOutcomeC10 struct {
	ok    bool
	err   string
	panic string
	files map[string]string
	req   []string
	order string
}

// staleSameSize: what a reused output directory holds differs from a fresh generation in
// content only, not in length.
var staleSameSize bool

func generateOnce(p *progen.Program, fs *MemFS, outDir string, go10 genOptsC10) (o genOutcomeC10) {
	defer func() {
		if r := recover(); r != nil {
			o = genOutcomeC10{panic: fmt.Sprintf("%v\n%s", r, debug.Stack())}
		}
	}()
	if go10.ReusedOut {
		// the output directory still holds what an earlier generation (of a bigger IDL, with
		// other options) left there: every file of that run, only longer
		filepath.Walk(outDir, func(path string, fi os.FileInfo, err error) error {
			if err == nil && fi.Mode().IsRegular() {
				if staleSameSize {
					// ... or of the same length, but not the same bytes (other options, another
					// version of an included file)
					if b, err := os.ReadFile(path); err == nil && len(b) > 8 {
						b[3] ^= 0x20
						os.WriteFile(path, b, 0644)
					}
				} else if f, err := os.OpenFile(path, os.O_APPEND|os.O_WRONLY, 0644); err == nil {
					f.WriteString("\n// tail of a longer file that an earlier generation left here\n")
					f.Close()
				}
			}
			return nil
		})
	} else {
		os.RemoveAll(outDir)
	}
	if err := os.MkdirAll(outDir, 0755); err != nil {
		panic(err)
	}
	m, err := compile.Compile(filepath.Join(memRoot, filepath.FromSlash(p.Files[0].RelPath())), compile.Filesystem(fs))
	if err != nil {
		return genOutcomeC10{err: "compile: " + err.Error()}
	}
	cap := &captureGen{files: map[string][]byte{"plug/extra.go": []byte("package plug\n")}}
	if go10.PluginTwoSpellings {
		// one plugin naming one file under two spellings with different contents: rejected
		// every time (never accepted with whichever entry the map walk meets last)
		cap.files["./plug/extra.go"] = []byte("package plug // the other spelling\n")
	}
	opts := &gen.Options{
		OutputDir:             outDir,
		PackagePrefix:         "example.com/gen",
		ThriftRoot:            memRoot,
		NoRecurse:             go10.NoRecurse,
		NoVersionCheck:        go10.NoVersionCheck,
		Plugin:                gen.CodeGenerator{ServiceGenerator: cap},
		NoTypes:               go10.NoTypes,
		NoConstants:           go10.NoConstants,
		NoServiceHelpers:      go10.NoServiceHelpers || go10.NoTypes,
		NoEmbedIDL:            go10.NoEmbedIDL,
		NoZap:                 go10.NoZap,
		OutputFile:            go10.OutputFile,
		EnumTextMarshalStrict: go10.Strict,
	}
	if err := gen.Generate(m, opts); err != nil {
		return genOutcomeC10{err: "generate: " + err.Error()}
	}
	o.ok = true
	o.files = world.Snapshot(outDir)
	o.req, o.order = canonRequest(cap.req)
	return o
}

// HostMain is main.do (nil in worker binaries that are not built from package main).
var HostMain func() error

// cliOnce generates through the real command line (main.do) instead of calling the
// generator: the thrift root is then derived from the files' locations, and the
// whole sandbox (not only the output directory) is what is compared.
func cliOnce(p *progen.Program, sandbox string, go10 genOptsC10) (o genOutcomeC10) {
	defer func() {
		if r := recover(); r != nil {
			o = genOutcomeC10{panic: fmt.Sprintf("%v\n%s", r, debug.Stack())}
		}
	}()
	os.RemoveAll(sandbox)
	thrift := filepath.Join(sandbox, "thrift")
	out := filepath.Join(sandbox, "out")
	if go10.DerivedPrefix {
		// two workspaces, one inside the other; the output directory lies in both
		out = filepath.Join(sandbox, "ws", "src", "corp", "src", "example.com", "gen")
		saved, had := os.LookupEnv("GOPATH")
		os.Setenv("GOPATH", filepath.Join(sandbox, "ws")+string(os.PathListSeparator)+filepath.Join(sandbox, "ws", "src", "corp")+string(os.PathListSeparator)+filepath.Join(sandbox, "elsewhere"))
		defer func() {
			if had {
				os.Setenv("GOPATH", saved)
			} else {
				os.Unsetenv("GOPATH")
			}
		}()
	}
	if err := os.MkdirAll(out, 0755); err != nil {
		panic(err)
	}
	for i, f := range p.Files {
		path := filepath.Join(thrift, filepath.FromSlash(f.RelPath()))
		if err := os.MkdirAll(filepath.Dir(path), 0755); err != nil {
			panic(err)
		}
		if err := os.WriteFile(path, []byte(p.Render(i)), 0644); err != nil {
			panic(err)
		}
	}
	args := []string{"thriftrw", "--out", out}
	if !go10.DerivedPrefix {
		args = append(args, "--pkg-prefix", "example.com/gen")
	}
	for _, x := range []struct {
		n string
		b bool
	}{{"no-recurse", go10.NoRecurse}, {"no-types", go10.NoTypes}, {"no-constants", go10.NoConstants}, {"no-service-helpers", go10.NoServiceHelpers},
		{"no-embed-idl", go10.NoEmbedIDL}, {"no-zap", go10.NoZap}, {"no-version-check", go10.NoVersionCheck}, {"enum-text-marshal-strict", go10.Strict}} {
		if x.b {
			args = append(args, "--"+x.n)
		}
	}
	if go10.OutputFile != "" {
		args = append(args, "--output-file", go10.OutputFile)
	}
	args = append(args, filepath.Join(thrift, filepath.FromSlash(p.Files[0].RelPath())))
	saved := os.Args
	os.Args = args
	err := HostMain()
	os.Args = saved
	if err != nil {
		return genOutcomeC10{err: "cli: " + strings.ReplaceAll(err.Error(), sandbox, "$SB")}
	}
	o.ok = true
	o.files = map[string]string{}
	for k, v := range world.Snapshot(sandbox) {
		if !strings.HasPrefix(k, "thrift/") && k != "thrift" {
			o.files[k] = v
		}
	}
	return o
}

// RunC10 is one C10 run: one (program, options), N map-order schedules.
// canaryWant is what the fixed program came out as when this process first generated it.
var canaryWant string

func canaryCheck(res *world.Result, s *simrt.Sim, outDir string) {
	if canaryWant != "" && len(res.Failures) > 0 {
		return
	}
	s.SetMapOrder(simrt.MapSorted)
	p := progen.Canary()
	got := generateOnce(p, render(p), outDir+"-canary", genOptsC10{})
	os.RemoveAll(outDir + "-canary")
	cur := ""
	switch {
	case got.panic != "":
		cur = "panic: " + firstLine(got.panic)
	case !got.ok:
		cur = "error: " + got.err
	default:
		var parts []string
		for _, k := range sortedKeysOf(got.files) {
			parts = append(parts, k+"="+got.files[k])
		}
		cur = strings.Join(parts, " ") + " | " + strings.Join(got.req, " ; ")
	}
	if canaryWant == "" {
		canaryWant = cur
		res.Count("c10.canary-baselines", 1)
		if !got.ok {
			res.Failf("C10/harness", "the fixed program does not generate: %s", first80(cur))
		}
		return
	}
	res.Count("c10.canary-regenerations", 1)
	if cur != canaryWant {
		res.Failf("C10/process-state-leak", "a fixed program, generated again after this one, no longer comes out as it did when this process first generated it: %s", first80(diffCanary(canaryWant, cur)))
	}
}

func diffCanary(a, b string) string {
	if strings.HasPrefix(b, "error: ") || strings.HasPrefix(b, "panic: ") || strings.HasPrefix(a, "error: ") {
		return "first " + first80(a) + ", now " + b
	}
	as, bs := strings.Fields(a), strings.Fields(b)
	for i := 0; i < len(as) && i < len(bs); i++ {
		if as[i] != bs[i] {
			return "first " + as[i] + ", now " + bs[i]
		}
	}
	return "outputs of different length"
}

func RunC10(cfg simrt.Config, o world.Opts) *world.Result {
	res := &world.Result{}
	if o.Trace {
		cfg.KeepLabels = true
	}
	cfg.StepCap = 1 << 40
	s := simrt.New(cfg)
	var lines []string
	logf := func(f string, a ...interface{}) {
		if o.Trace {
			lines = append(lines, fmt.Sprintf(f, a...))
		}
	}
	h := world.NewHasher()
	base := o.TmpDir
	if base == "" {
		base = os.TempDir()
	}
	outDir := filepath.Join(base, fmt.Sprintf("w%d", o.Worker), "c10out")
	s.Inline(func() {
		// a fixed program is generated before the first program of this process and again after
		// every program: whatever was generated in between, it comes out the same
		// (both times in every run, so that a run is the same sequence of steps wherever in a
		// process's life it happens)
		canaryCheck(res, s, outDir)
		defer canaryCheck(res, s, outDir)
		p := progen.Gen(progen.Options{MaxFiles: 5, MaxDefs: 5, Invalid: true, CapsWords: true, Unhashable: true, Annotations: true, Consts: true, ConstRefs: true, Unions: true, Exceptions: true, Defaults: true,
			SameNames: true, Recursive: true, RecDefaults: true, StructConsts: true, WantService: simrt.Flip("c10.want-service", 0.7), GoNames: simrt.Flip("c10.go-names", 0.5)})
		var g genOptsC10
		if simrt.Flip("c10.options", 0.5) {
			g.NoRecurse = simrt.Flip("opt.no-recurse", 0.2)
			g.NoTypes = simrt.Flip("opt.no-types", 0.1)
			g.NoConstants = simrt.Flip("opt.no-constants", 0.15)
			g.NoServiceHelpers = simrt.Flip("opt.no-service-helpers", 0.15)
			g.NoEmbedIDL = simrt.Flip("opt.no-embed-idl", 0.2)
			g.NoZap = simrt.Flip("opt.no-zap", 0.2)
			g.NoVersionCheck = simrt.Flip("opt.no-version-check", 0.2)
			g.Strict = simrt.Flip("opt.enum-strict", 0.2)
			if simrt.Flip("opt.output-file", 0.1) {
				g.OutputFile = "single.go"
			}
		}
		g.PluginTwoSpellings = simrt.Flip("c10.plugin-two-spellings", 0.1)
		g.DerivedPrefix = simrt.Flip("c10.derived-pkg-prefix", 0.3)
		g.ReusedOut = simrt.Flip("c10.reused-output-directory", 0.25)
		staleSameSize = g.ReusedOut && ch("c10.stale-same-size", 2) == 1
		os.RemoveAll(outDir)
		if o.Trace {
			logf("options %s", g)
			for _, l := range strings.Split(p.Describe(), "\n") {
				logf("  | %s", l)
			}
		}
		fs := render(p)
		viaCLI := HostMain != nil && simrt.Flip("c10.via-cli", 0.3)
		sandbox := filepath.Join(base, fmt.Sprintf("w%d", o.Worker), "c10cli")
		if viaCLI {
			res.Count("c10.programs-through-the-command-line", 1)
			logf("generated through the command line (thrift root derived from the files)")
			defer os.RemoveAll(sandbox)
		}
		N := 6
		if o.Tier == "thorough" {
			N = 16
		}
		var first *genOutcomeC10
		firstDesc := ""
		orders := map[string]bool{}
		for i := 0; i < N; i++ {
			var mo simrt.MapOrder
			switch i {
			case 0:
				mo = simrt.MapSorted
			case 1:
				mo = simrt.MapReverse
			default:
				mo = simrt.MapOrder(2 + ch("order.policy", 3))
			}
			s.SetMapOrder(mo)
			var got genOutcomeC10
			if viaCLI {
				got = cliOnce(p, sandbox, g)
			} else {
				got = generateOnce(p, fs, outDir, g)
			}
			desc := fmt.Sprintf("schedule %d (map order %s)", i, orderNames[mo])
			if got.ok {
				logf("%s: generated %d paths", desc, len(got.files))
				orders[got.order] = true
			} else {
				logf("%s: %s%s", desc, first80(got.err), first80(got.panic))
			}
			h.Str(fmt.Sprint(got.ok))
			for _, k := range sortedKeysOf(got.files) {
				h.Str(k)
				h.Str(got.files[k])
			}
			res.Nontrivial = true
			if got.panic != "" {
				// a crash of the generator is C06/C08's business unless it depends on the order
				if first != nil && first.panic == "" {
					res.Failf("C10/order-dependent-outcome", "%s panicked (%s) but %s did not", desc, first80(got.panic), firstDesc)
					return
				}
			}
			if first == nil {
				gg := got
				first, firstDesc = &gg, desc
				continue
			}
			if got.ok != first.ok || (got.panic != "") != (first.panic != "") {
				res.Failf("C10/order-dependent-outcome", "%s%s -> ok=%v (%s) but %s -> ok=%v (%s)", f6Shape(p, first.err+" "+got.err), firstDesc, first.ok, first80(first.err+first.panic), desc, got.ok, first80(got.err+got.panic))
				return
			}
			if !got.ok {
				continue
			}
			if d := diffFiles(first.files, got.files); d != "" {
				res.Failf("C10/output-differs", "%s and %s generate different output: %s", firstDesc, desc, d)
				return
			}
			if strings.Join(got.req, "\n") != strings.Join(first.req, "\n") {
				res.Failf("C10/plugin-request-differs", "%s and %s hand different requests to plugins (after renumbering ids): %s", firstDesc, desc, diffLines(first.req, got.req))
				return
			}
		}
		if first != nil && first.ok {
			res.Count("c10.programs-generated", 1)
			if len(orders) > 1 {
				res.Count("c10.note.root-list-order-varies", 1)
			}
		} else if first != nil && first.panic != "" {
			res.Count("c10.programs-panic-consistently", 1)
			res.Notes = append(res.Notes, "generator panics consistently (out of scope for C10): "+firstLine(first.panic))
		} else {
			res.Count("c10.programs-rejected-consistently", 1)
		}
	})
	os.RemoveAll(outDir)
	res.FromSim(s)
	for _, c := range res.Choices {
		h.Int(int64(c))
	}
	res.Hash = h.Sum()
	k := world.NewHasher()
	for _, c := range res.Choices {
		k.Int(int64(c))
	}
	res.Key = k.Sum()
	if o.Trace {
		res.Trace = append(lines, world.TraceOf(s, "")...)
		res.Sample = lines
	}
	return res
}

func firstLine(s string) string {
	if i := strings.Index(s, "\n"); i > 0 {
		return s[:i]
	}
	return s
}

func sortedKeysOf(m map[string]string) []string {
	ks := make([]string, 0, len(m))
	for k := range m {
		ks = append(ks, k)
	}
	sort.Strings(ks)
	return ks
}

func diffFiles(a, b map[string]string) string {
	var out []string
	for _, k := range sortedKeysOf(a) {
		if v, ok := b[k]; !ok {
			out = append(out, "only in first: "+k)
		} else if v != a[k] {
			out = append(out, "content differs: "+k)
		}
	}
	for _, k := range sortedKeysOf(b) {
		if _, ok := a[k]; !ok {
			out = append(out, "only in second: "+k)
		}
	}
	if len(out) > 5 {
		out = append(out[:5], "...")
	}
	return strings.Join(out, "; ")
}
