// Package zzmain is the worker entry point shared by the test binaries.
package zzmain

import (
	"fmt"

	"go.uber.org/thriftrw/internal/zzsim/gen/registry"
)

// HostMain is main.do, set by the root package's TestMain.
var HostMain func() error

// TBRun is cmd/thriftbreak's run, set by that package's TestMain.
var TBRun func(args []string) error

func Main() int {
	fmt.Println("worker: registry types:", len(registry.Types))
	return 0
}
