// Package simrt is the deterministic simulator runtime: one seeded choice
// stream, a single-baton cooperative scheduler over real goroutines, simulated
// pipes and processes, a map-order seam, an event log and probes.
//
// It must not import any thriftrw package (the code under test imports it).
//
// Every function that touches state shared between tasks is //go:norace and
// avoids maps: in -race builds the baton is handed over through raw pipe
// syscalls that the race detector cannot see, so the detector observes no
// happens-before edge made by the scheduler, and must not see the scheduler's
// own (baton-serialised) accesses either.
package simrt

// splitmix64 step; used for seeding and for deriving run seeds.
//
//go:norace
func SplitMix(x uint64) uint64 {
	x += 0x9e3779b97f4a7c15
	z := x
	z = (z ^ (z >> 30)) * 0xbf58476d1ce4e5b9
	z = (z ^ (z >> 27)) * 0x94d049bb133111eb
	return z ^ (z >> 31)
}

// Derive mixes several integers into one seed.
//
//go:norace
func Derive(seed uint64, parts ...uint64) uint64 {
	x := SplitMix(seed)
	for _, p := range parts {
		x = SplitMix(x ^ SplitMix(p+0x51ed270b))
	}
	return x
}

// Rng is xoshiro256**.
type Rng struct{ s [4]uint64 }

//go:norace
func NewRng(seed uint64) *Rng {
	r := &Rng{}
	r.Seed(seed)
	return r
}

//go:norace
func (r *Rng) Seed(seed uint64) {
	x := seed
	for i := 0; i < 4; i++ {
		x = SplitMix(x)
		r.s[i] = x
	}
	if r.s[0]|r.s[1]|r.s[2]|r.s[3] == 0 {
		r.s[0] = 1
	}
}

//go:norace
func rotl(x uint64, k uint) uint64 { return (x << k) | (x >> (64 - k)) }

//go:norace
func (r *Rng) Uint64() uint64 {
	s := &r.s
	res := rotl(s[1]*5, 7) * 9
	t := s[1] << 17
	s[2] ^= s[0]
	s[3] ^= s[1]
	s[1] ^= s[2]
	s[0] ^= s[3]
	s[2] ^= t
	s[3] = rotl(s[3], 45)
	return res
}

// Intn returns a value in [0,n); n<=1 gives 0.
//
//go:norace
func (r *Rng) Intn(n int) int {
	if n <= 1 {
		return 0
	}
	return int(r.Uint64() % uint64(n))
}

//go:norace
func (r *Rng) Float() float64 { return float64(r.Uint64()>>11) / (1 << 53) }

// ---------------------------------------------------------------------------

// Choice returns a value in [0,n) from the current run's choice stream.
// 0 is always the benign default. Outside a run it returns 0.
//
//go:norace
func Choice(label string, n int) int {
	s := S
	if s == nil {
		return 0
	}
	return s.choose(label, n, -1)
}

// ChoiceBias is Choice, but in search mode 0 is drawn with probability p0 and
// the rest uniformly. The recorded stream holds only the value.
//
//go:norace
func ChoiceBias(label string, n int, p0 float64) int {
	s := S
	if s == nil {
		return 0
	}
	return s.choose(label, n, p0)
}

// Flip returns true with probability p (choice 1); false is benign.
//
//go:norace
func Flip(label string, p float64) bool {
	s := S
	if s == nil {
		return false
	}
	return s.choose(label, 2, 1-p) == 1
}

// Pin records v as the value of a choice without drawing (search mode); in a
// replay the recorded value is returned instead. Used for systematically
// enumerated workload parameters, so that the replay file stays self-contained.
//
//go:norace
func Pin(label string, n, v int) int {
	s := S
	if s == nil {
		return v
	}
	if s.replay {
		return s.choose(label, n, -1)
	}
	return s.chooseFixed(label, n, v)
}

// Active reports whether a simulated run is in progress.
//
//go:norace
func Active() bool { return S != nil }

//go:norace
func (s *Sim) choose(label string, n int, p0 float64) int {
	if n <= 1 {
		return 0
	}
	var v int
	if s.replay {
		if s.pos < len(s.in) {
			v = int(s.in[s.pos])
			if v < 0 || v >= n {
				v = v % n
				if v < 0 {
					v = 0
				}
			}
		}
	} else if p0 >= 0 {
		if s.rng.Float() < p0 {
			v = 0
		} else {
			v = 1 + s.rng.Intn(n-1)
		}
	} else {
		v = s.rng.Intn(n)
	}
	s.pos++
	if len(s.out) < maxChoices {
		s.out = append(s.out, int32(v))
		if s.KeepLabels {
			s.labels = append(s.labels, label)
		}
	} else {
		s.overflow = true
	}
	return v
}

const maxChoices = 1 << 20
