// Package pluginw is the plugin-world engine (C16, C17, fan-out part of C18):
// the real CLI (main.do) as host task plus 0..3 simulated plugin processes
// over simulated pipes, with scripted faults at every protocol step.
package pluginw

import (
	"encoding/binary"
	"fmt"
	"io"
	"os"
	"strconv"
	"strings"

	"go.uber.org/thriftrw/internal/zzsim/ref"
	"go.uber.org/thriftrw/internal/zzsim/simrt"
)

// APIVersion is plugin/api.thrift's API_VERSION: the builder reads it from the
// IDL of the tree under test and passes it in VSIM_API_VERSION (4 at the pinned commit).
var APIVersion = func() int64 {
	if v, err := strconv.Atoi(os.Getenv("VSIM_API_VERSION")); err == nil && v > 0 {
		return int64(v)
	}
	return 4
}()

type Step int

const (
	StepHandshake Step = iota
	StepGenerate
	StepGoodbye
	nSteps
)

func (s Step) String() string { return [...]string{"handshake", "generate", "goodbye"}[s] }

type ActKind int

const (
	ActOK              ActKind = iota // well-formed reply
	ActOKExtra                        // well-formed reply with unknown extra fields / features, no libraryVersion
	ActWrongName                      // handshake: another plugin name
	ActWrongVersion                   // handshake: apiVersion+1
	ActMissingRequired                // reply body lacks a required field
	ActEmptyResult                    // result struct without the success field
	ActException                      // Exception envelope (TApplicationException)
	ActUnknownEnvType                 // envelope type 7
	ActGarbageFramed                  // well-framed random payload
	ActGarbageRaw                     // unframed random bytes, then exit
	ActTruncate                       // first k bytes of the reply frame, then exit
	ActOversized                      // length prefix far beyond the data, then exit
	ActExitNoReply                    // read the request, exit without replying
	ActOKThenExit                     // reply, then exit before reading the next request
	nActs
)

var actNames = [...]string{"ok", "ok-extra-fields", "wrong-name", "wrong-api-version", "missing-required-field",
	"empty-result", "exception-envelope", "unknown-envelope-type", "garbage-framed", "garbage-raw", "truncate",
	"oversized-length-prefix", "exit-after-reading-without-reply", "ok-then-exit"}

func (a ActKind) String() string { return actNames[a] }

// replyGood reports whether the reply sent at step st is a complete,
// well-formed, successful reply for that step.
func (a ActKind) replyGood(st Step) bool {
	switch a {
	case ActOK, ActOKExtra, ActOKThenExit:
		return true
	case ActWrongName, ActWrongVersion, ActMissingRequired:
		// only the handshake reply carries a name, a version and required fields
		return st != StepHandshake
	case ActEmptyResult:
		return st == StepGoodbye // a void result is empty by definition
	}
	return false
}

// fails reports whether the action makes the plugin a failed plugin when it
// is applied at step st.
func (a ActKind) fails(st Step) bool {
	if a == ActOKThenExit {
		return st != StepGoodbye // after goodbye, exiting is what a plugin does
	}
	return !a.replyGood(st)
}

// exits reports whether the plugin process ends right after performing the action.
func (a ActKind) exits() bool {
	switch a {
	case ActGarbageRaw, ActTruncate, ActOversized, ActExitNoReply, ActOKThenExit:
		return true
	}
	return false
}

type Action struct {
	Kind ActKind
	At   int // truncate: byte offset modulo frame length
	N    int // garbage: number of bytes / generator seed
	// Trail: a reply that makes the plugin a failed one is followed by this many stray bytes,
	// which the host will never read (more than the pipe holds: the plugin blocks in write)
	Trail int
}

type Script struct {
	Name        string
	Inst        int  // > 0: the Inst-th further instance of the plugin called Name (`-p "name --instance=N"`)
	Conforming  bool // real plugin.Main with a scripted generator
	// Channel: which of Plugin.Reader / Plugin.Writer the conforming plugin sets itself
	// (0 both, 1 neither, 2 only Reader, 3 only Writer); the library's default for the
	// other one is the process's standard stream
	Channel int
	// AltIn / AltOut: a channel of the plugin's own (not its standard streams) that the side
	// it sets itself is connected to, when the world provides one
	AltIn  io.ReadCloser
	AltOut io.WriteCloser
	StartFail   int  // 0 none, 1 ENOENT, 2 EAGAIN
	ExitAtStart bool // exit before reading anything
	NoSG        bool // do not advertise SERVICE_GENERATOR
	Steps       [nSteps]Action
	ExitStatus  int
	ModSuffix   string // the root Thrift file's path below the sandbox, e.g. "/thrift/a/root.thrift"
	ByteWrites  bool   // reply in 1-byte writes
	Helper      bool   // the plugin starts a daemon that inherits its stderr and outlives it
	// generate reply
	Files  []GenFile
	GenErr bool // conforming: the generator returns an error
}

// A GenFile with Dyn set is placed by the plugin where a well-behaved generator puts its
// files: in the Directory the request gives for the module of the root Thrift file
// (ModSuffix identifies that module); Path then holds the path this must come to.
type GenFile struct {
	Dyn     bool
	Base    string
	Path    string
	Content string
}

// handshakeOK: the plugin sends a complete well-formed handshake reply with the
// expected name and version.
// ID tells the instances of one plugin name apart.
func (s *Script) ID() string {
	if s.Inst > 0 {
		return fmt.Sprintf("%s#%d", s.Name, s.Inst)
	}
	return s.Name
}

func (s *Script) handshakeOK() bool {
	if s.StartFail != 0 || s.ExitAtStart {
		return false
	}
	if s.Conforming {
		return true
	}
	return s.Steps[StepHandshake].Kind.replyGood(StepHandshake)
}

// aliveAfterHandshake: handshake replied OK and the process keeps reading.
func (s *Script) aliveAfterHandshake() bool {
	return s.handshakeOK() && (s.Conforming || !s.Steps[StepHandshake].Kind.exits())
}

func (s *Script) advertisesSG() bool { return !s.NoSG }

// Fails: is this a failed plugin, given that the host walks the whole protocol
// (handshake, generate if advertised, goodbye)?
func (s *Script) Fails() bool {
	if s.StartFail != 0 || s.ExitAtStart {
		return true
	}
	if s.Conforming {
		return s.ExitStatus != 0 || (s.GenErr && s.advertisesSG())
	}
	if s.Steps[StepHandshake].Kind.fails(StepHandshake) {
		return true
	}
	if s.advertisesSG() && s.Steps[StepGenerate].Kind.fails(StepGenerate) {
		return true
	}
	if s.Steps[StepGoodbye].Kind.fails(StepGoodbye) {
		return true
	}
	return s.ExitStatus != 0
}

func (s *Script) String() string {
	if s.StartFail != 0 {
		return fmt.Sprintf("%s{start-fails:%d}", s.Name, s.StartFail)
	}
	if s.Conforming {
		return fmt.Sprintf("%s{conforming noSG=%v genErr=%v files=%d exit=%d}", s.Name, s.NoSG, s.GenErr, len(s.Files), s.ExitStatus)
	}
	str := fmt.Sprintf("%s{scripted", s.Name)
	if s.ExitAtStart {
		str += " exit-at-start"
	}
	for st := StepHandshake; st < nSteps; st++ {
		a := s.Steps[st]
		str += fmt.Sprintf(" %s=%s", st, a.Kind)
		if a.Kind == ActTruncate {
			str += fmt.Sprintf("@%d", a.At)
		}
	}
	str += fmt.Sprintf(" noSG=%v files=%d 1byte=%v exit=%d}", s.NoSG, len(s.Files), s.ByteWrites, s.ExitStatus)
	return str
}

// FrameRec is one complete frame seen at the plugin's side of a pipe.
type FrameRec struct {
	Seq   int64
	Name  string
	Type  int8
	SeqID int32
	Body  ref.Val
	Bad   string // non-empty: frame did not decode as an envelope
	Raw   int    // payload length
}

// PlugLog is the per-plugin history.
type PlugLog struct {
	Script     *Script
	Started    bool
	Recv       []FrameRec
	Sent       []FrameRec
	StdinEOF   bool
	ExitReason string
	GenCalls   int
	GenReq     ref.Val // what the real plugin library handed to the generator (conforming)
	TruncAt    int
	TruncLen   int
}

func (l *PlugLog) count(name string) int {
	n := 0
	for _, f := range l.Recv {
		if f.Name == name {
			n++
		}
	}
	return n
}

// sniffer reassembles frames from a byte stream.
type sniffer struct {
	buf  []byte
	emit func(payload []byte)
}

func (s *sniffer) feed(b []byte) {
	s.buf = append(s.buf, b...)
	for len(s.buf) >= 4 {
		n := int(binary.BigEndian.Uint32(s.buf))
		if n < 0 || n > 1<<26 || len(s.buf)-4 < n {
			return
		}
		s.emit(s.buf[4 : 4+n])
		s.buf = s.buf[4+n:]
	}
}

func recOf(payload []byte) FrameRec {
	r := FrameRec{Seq: simrt.NextSeq(), Raw: len(payload)}
	e, n, err := ref.DecodeEnvelope(payload)
	if err != nil {
		r.Bad = err.Error()
		return r
	}
	if n != len(payload) {
		r.Bad = fmt.Sprintf("trailing bytes: envelope %d of %d", n, len(payload))
	}
	r.Name, r.Type, r.SeqID, r.Body = e.Name, e.Type, e.SeqID, e.Body
	return r
}

type sniffReader struct {
	r   io.Reader
	log *PlugLog
	sn  sniffer
}

func newSniffReader(r io.Reader, log *PlugLog) *sniffReader {
	sr := &sniffReader{r: r, log: log}
	sr.sn.emit = func(p []byte) {
		rec := recOf(p)
		log.Recv = append(log.Recv, rec)
		simrt.Emit("plugin-recv", log.Script.Name, int64(len(p)), rec.Name)
	}
	return sr
}

func (s *sniffReader) Read(b []byte) (int, error) {
	n, err := s.r.Read(b)
	if n > 0 {
		s.sn.feed(b[:n])
	}
	if err == io.EOF {
		s.log.StdinEOF = true
	}
	return n, err
}

func (s *sniffReader) Close() error {
	if c, ok := s.r.(io.Closer); ok {
		return c.Close()
	}
	return nil
}

type sniffWriter struct {
	w   io.Writer
	log *PlugLog
	sn  sniffer
}

func newSniffWriter(w io.Writer, log *PlugLog) *sniffWriter {
	sw := &sniffWriter{w: w, log: log}
	sw.sn.emit = func(p []byte) {
		rec := recOf(p)
		log.Sent = append(log.Sent, rec)
		simrt.Emit("plugin-sent", log.Script.Name, int64(len(p)), rec.Name)
	}
	return sw
}

func (s *sniffWriter) Write(b []byte) (int, error) {
	n, err := s.w.Write(b)
	if n > 0 {
		s.sn.feed(b[:n])
	}
	return n, err
}

func (s *sniffWriter) Close() error {
	if c, ok := s.w.(io.Closer); ok {
		return c.Close()
	}
	return nil
}

// garbage returns n deterministic pseudo-random bytes.
func garbage(seed, n int) []byte {
	r := simrt.NewRng(uint64(seed)*7919 + 17)
	b := make([]byte, n)
	for i := range b {
		b[i] = byte(r.Uint64())
	}
	return b
}

// scriptedMain interprets a Script over the raw pipes.
func scriptedMain(sc *Script, log *PlugLog) func(p *simrt.Process) int {
	return func(p *simrt.Process) int {
		return scriptedRun(sc, log, p.Stdin, p.Stdout)
	}
}

// scriptedRun is the interpreter proper, over any byte streams (simulated
// pipes in a run, os.Stdin/os.Stdout in the stub-fidelity cross-check).
func scriptedRun(sc *Script, log *PlugLog, stdin io.Reader, stdout io.Writer) int {
	{
		log.Started = true
		if sc.ExitAtStart {
			log.ExitReason = "script-exit-at-start"
			pFault[ActExitNoReply].Hit()
			return sc.ExitStatus
		}
		in := newSniffReader(stdin, log)
		out := newSniffWriter(stdout, log)
		write := func(b []byte) error {
			if sc.ByteWrites {
				for i := range b {
					if _, err := out.Write(b[i : i+1]); err != nil {
						return err
					}
				}
				return nil
			}
			_, err := out.Write(b)
			return err
		}
		var hdr [4]byte
		for {
			if _, err := io.ReadFull(in, hdr[:]); err != nil {
				if log.ExitReason == "" {
					log.ExitReason = "stdin-eof"
				}
				return sc.ExitStatus
			}
			n := int(binary.BigEndian.Uint32(hdr[:]))
			if n < 0 || n > 1<<26 {
				simrt.Fail("C16/host-frame-malformed", "plugin %s received a frame with length prefix %d", sc.Name, n)
				log.ExitReason = "bad-frame"
				return 3
			}
			payload := make([]byte, n)
			if _, err := io.ReadFull(in, payload); err != nil {
				simrt.Fail("C16/host-frame-malformed", "plugin %s: request frame of %d bytes was cut short: %v", sc.Name, n, err)
				log.ExitReason = "short-frame"
				return 3
			}
			req, _, err := ref.DecodeEnvelope(payload)
			if err != nil {
				simrt.Fail("C16/host-frame-malformed", "plugin %s: request is not a Thrift envelope: %v", sc.Name, err)
				log.ExitReason = "bad-envelope"
				return 3
			}
			var st Step
			switch req.Name {
			case "Plugin:handshake":
				st = StepHandshake
			case "ServiceGenerator:generate":
				st = StepGenerate
			case "Plugin:goodbye":
				st = StepGoodbye
			default:
				simrt.Fail("C16/host-unknown-method", "plugin %s received unknown method %q", sc.Name, req.Name)
				return 3
			}
			act := sc.Steps[st]
			pCell[int(st)*int(nActs)+int(act.Kind)].Hit()
			if act.Kind != ActOK {
				pFault[act.Kind].Hit()
			}
			reply := buildReply(sc, st, act.Kind, req)
			var werr error
			switch act.Kind {
			case ActExitNoReply:
				log.ExitReason = "script-exit"
				return sc.ExitStatus
			case ActGarbageFramed:
				werr = write(ref.Frame(garbage(act.N, 1+act.N%97)))
			case ActGarbageRaw:
				werr = write(garbage(act.N, 1+act.N%61))
				log.ExitReason = "script-exit"
				return sc.ExitStatus
			case ActOversized:
				b := binary.BigEndian.AppendUint32(nil, uint32(0x7fffff00+act.N%200))
				b = append(b, reply...)
				werr = write(b)
				log.ExitReason = "script-exit"
				return sc.ExitStatus
			case ActTruncate:
				fr := ref.Frame(reply)
				at := act.At % len(fr)
				log.TruncAt, log.TruncLen = at, len(fr)
				simrt.Emit("plugin-truncate", sc.Name, int64(at), st.String())
				if at > 0 {
					werr = write(fr[:at])
				}
				log.ExitReason = "script-exit"
				return sc.ExitStatus
			default:
				werr = write(ref.Frame(reply))
				// only after a handshake reply that is itself bad: the host then gives this plugin up
				// and closes its pipes at once (later on it would first want to say goodbye, and a
				// plugin that is stuck in write never reads that - a stalled plugin, not our subject)
				if werr == nil && act.Trail > 0 && st == StepHandshake && !act.Kind.replyGood(st) {
					pTrail.Hit()
					if terr := write(garbage(act.N+7, act.Trail)); terr != nil {
						log.ExitReason = "write-error"
						if simrt.IsEPIPE(terr) {
							return 141
						}
						return 3
					}
				}
			}
			if werr != nil {
				log.ExitReason = "write-error"
				if simrt.IsEPIPE(werr) {
					return 141
				}
				return 3
			}
			if act.Kind == ActOKThenExit || st == StepGoodbye {
				if log.ExitReason == "" {
					if st == StepGoodbye {
						log.ExitReason = "after-goodbye"
					} else {
						log.ExitReason = "script-exit"
					}
				}
				return sc.ExitStatus
			}
		}
	}
}

// buildReply builds the reply envelope payload for a step.
// wrongName gives one of several names that are not the expected one: unrelated,
// differing in letter case only, with a trailing blank, cut short, empty.
func wrongName(name string, variant int) string {
	w := "not-" + name
	switch variant % 6 {
	case 1:
		w = strings.ToUpper(name)
	case 2:
		w = name + " "
	case 3:
		w = name[:len(name)-1]
	case 4:
		w = ""
	case 5:
		w = strings.ToUpper(name[:1]) + name[1:]
	}
	if w == name {
		// a name without letters where the variant changes case ("50%off"): still a wrong name
		w = "not-" + name
	}
	return w
}

// wrongVersion gives an API version other than the expected one.
func wrongVersion(v int32, variant int) int32 {
	switch variant % 5 {
	case 1:
		return v - 1
	case 2:
		return 0
	case 3:
		return -v
	case 4:
		return v + 256
	}
	return v + 1
}

var pTrail = simrt.NewProbe("plugin.stray-output-after-failing-reply")

func buildReply(sc *Script, st Step, k ActKind, req ref.Envelope) []byte {
	env := ref.Envelope{Name: req.Name, Type: ref.Reply, SeqID: req.SeqID, Strict: true}
	switch k {
	case ActException:
		env.Type = ref.Exception
		env.Body = ref.Struct(ref.F(1, ref.Str("scripted failure")), ref.F(2, ref.I32(6)))
		return ref.EncodeEnvelope(env)
	case ActUnknownEnvType:
		// not a reply: an undefined type, or the request's own type echoed back (Call, OneWay)
		env.Type = []int8{7, 1, 4, 0, 127}[sc.Steps[st].N%5]
	}
	var success ref.Val
	switch st {
	case StepHandshake:
		name := sc.Name
		version := int32(APIVersion)
		if k == ActWrongName {
			name = wrongName(sc.Name, sc.Steps[st].N)
		}
		if k == ActWrongVersion {
			version = wrongVersion(version, sc.Steps[st].N)
		}
		var feats []ref.Val
		if !sc.NoSG {
			feats = append(feats, ref.I32(1))
		}
		if k == ActOKExtra {
			// features this host does not know (a plugin built against a newer API), behind, ahead
			// of or around the one it does
			switch sc.Steps[st].N % 3 {
			case 0:
				feats = append(feats, ref.I32(99))
			case 1:
				feats = append([]ref.Val{ref.I32(99)}, feats...)
			default:
				feats = append(append([]ref.Val{ref.I32(7), ref.I32(99)}, feats...), feats...)
			}
		}
		fs := []ref.Field{}
		if k != ActMissingRequired {
			fs = append(fs, ref.F(1, ref.Str(name)))
		}
		fs = append(fs, ref.F(2, ref.I32(version)), ref.F(3, ref.List(ref.TI32, feats...)))
		if k == ActOKExtra {
			fs = append(fs, ref.F(77, ref.Str("unknown field")), ref.F(-5, ref.List(ref.TStruct, ref.Struct())))
		} else if sc.Steps[st].N%3 != 1 {
			fs = append(fs, ref.F(4, ref.Str("1.2.3"))) // libraryVersion is optional: two replies in three carry it
		}
		success = ref.Struct(fs...)
	case StepGenerate:
		var kv []ref.Val
		for _, f := range sc.Files {
			pth := f.Path
			if f.Dyn {
				pth = "no-such-module/" + f.Base
				if mods, ok := req.Body.Get(1); ok { // args struct: field 1 = the request
					if mm, ok := mods.Get(3); ok { // modules
						for i := 0; i+1 < len(mm.Items); i += 2 {
							m := mm.Items[i+1]
							tp, _ := m.Get(3)
							dir, _ := m.Get(2)
							if strings.HasSuffix(string(tp.B), sc.ModSuffix) {
								pth = string(dir.B) + "/" + f.Base
							}
						}
					}
				}
			}
			kv = append(kv, ref.Str(pth), ref.Bin([]byte(f.Content)))
		}
		fs := []ref.Field{ref.F(1, ref.Map(ref.TBinary, ref.TBinary, kv...))}
		if k == ActOKExtra {
			fs = append(fs, ref.F(42, ref.I64(7)))
		}
		success = ref.Struct(fs...)
	case StepGoodbye:
		env.Body = ref.Struct()
		if k == ActOKExtra {
			env.Body = ref.Struct(ref.F(9, ref.Bool(true)))
		}
		return ref.EncodeEnvelope(env)
	}
	if k == ActEmptyResult {
		env.Body = ref.Struct()
	} else {
		env.Body = ref.Struct(ref.F(0, success))
	}
	return ref.EncodeEnvelope(env)
}

var (
	pFault [nActs]simrt.Probe
	pCell  [int(nSteps) * int(nActs)]simrt.Probe
)

func init() {
	for a := ActKind(0); a < nActs; a++ {
		pFault[a] = simrt.NewProbe("fault.plugin." + a.String())
	}
	for st := StepHandshake; st < nSteps; st++ {
		for a := ActKind(0); a < nActs; a++ {
			pCell[int(st)*int(nActs)+int(a)] = simrt.NewProbe("cell." + st.String() + "." + a.String())
		}
	}
}
