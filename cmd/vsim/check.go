package main

func runCheck(prop, tier, replay string) int { return 2 }
func runSelftest() int                      { return 2 }
