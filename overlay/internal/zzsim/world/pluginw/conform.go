package pluginw

import (
	"bytes"
	"encoding/binary"
	"fmt"
	"io"

	"go.uber.org/thriftrw/internal/zzsim/ref"
	"go.uber.org/thriftrw/internal/zzsim/simrt"
	"go.uber.org/thriftrw/internal/zzsim/world"
)

// runConform is the run kind in which the HOST is the scripted side: a harness
// task speaks raw frames to the real plugin.Main (a conforming plugin built with
// the plugin library) over simulated pipes and checks its answers.
func runConform(res *world.Result, s *simrt.Sim, o world.Opts, describe *[]string) {
	name := "plgconform"
	ps := &Script{Name: name, Conforming: true}
	ps.NoSG = simrt.Flip("conform.no-sg", 0.3)
	ps.GenErr = simrt.Flip("conform.gen-err", 0.15)
	nf := simrt.Choice("conform.files", 3)
	for k := 0; k < nf; k++ {
		ps.Files = append(ps.Files, GenFile{Path: fmt.Sprintf("x/f%d.go", k), Content: fmt.Sprintf("// file %d\n", k)})
	}
	byteWrites := simrt.Flip("conform.byte-writes", 0.3)
	nGen := simrt.Choice("conform.generates", 3)
	unknownMethod := simrt.Flip("conform.unknown-method", 0.3)
	unknownService := simrt.Flip("conform.unknown-service", 0.2)
	legacy := simrt.Flip("conform.legacy-envelope", 0.2)
	s.SetStrategy(simrt.Strategy(simrt.Choice("sim.strategy", 3)), swp[simrt.Choice("sim.switchp", len(swp))], 200)
	s.Preempt = simrt.Choice("sim.preempt", 2) == 1
	s.ChunkP0 = chunkp[simrt.Choice("sim.chunkp0", len(chunkp))]
	*describe = append(*describe, fmt.Sprintf("conforming-plugin run: %s; host writes 1 byte at a time=%v, generates=%d, unknown method=%v, unknown service=%v, legacy envelopes=%v",
		ps, byteWrites, nGen, unknownMethod, unknownService, legacy))

	log := &PlugLog{Script: ps}
	entry := simrt.ExecEntry{Name: "thriftrw-plugin-" + name, Main: conformingMain(ps, log)}
	in := simrt.NewPipe(name + ".stdin")
	out := simrt.NewPipe(name + ".stdout")
	hostW := &simrt.PipeWriter{P: in, Tag: name + ".stdin.host"}
	hostR := &simrt.PipeReader{P: out, Tag: name + ".stdout.host"}
	// the plugin's own channel next to its standard streams: the side it sets itself is
	// connected there, the side it leaves to the library is its standard stream; the ends
	// nobody is meant to use are closed (a reader there sees EOF at once)
	ps.Channel = simrt.Choice("conform.channel", 4)
	xin := simrt.NewPipe(name + ".altin")
	xout := simrt.NewPipe(name + ".altout")
	ps.AltIn = &simrt.PipeReader{P: xin, Tag: name + ".altin.child"}
	ps.AltOut = &simrt.PipeWriter{P: xout, Tag: name + ".altout.child"}
	xW := &simrt.PipeWriter{P: xin, Tag: name + ".altin.host"}
	xR := &simrt.PipeReader{P: xout, Tag: name + ".altout.host"}
	stdW, stdR := hostW, hostR
	if ps.Channel == 0 || ps.Channel == 2 {
		hostW = xW
		stdW.Close()
	} else {
		xW.Close()
	}
	if ps.Channel == 0 || ps.Channel == 3 {
		hostR = xR
	}
	defer func() { stdW.CloseQuiet(); stdR.CloseQuiet(); xW.CloseQuiet(); xR.CloseQuiet() }()
	proc := s.StartProcess(&entry, "/sim/bin/"+entry.Name, nil, &simrt.PipeReader{P: in, Tag: name + ".stdin.child"}, &simrt.PipeWriter{P: out, Tag: name + ".stdout.child"})

	seq := int32(1)
	send := func(method string, body ref.Val) (ref.Envelope, error) {
		seq += int32(1 + simrt.Choice("conform.seq-gap", 3))
		req := ref.Envelope{Name: method, Type: ref.Call, SeqID: seq, Body: body, Strict: !legacy}
		fr := ref.Frame(ref.EncodeEnvelope(req))
		if byteWrites {
			for i := range fr {
				if _, err := hostW.Write(fr[i : i+1]); err != nil {
					return ref.Envelope{}, err
				}
			}
		} else if _, err := hostW.Write(fr); err != nil {
			return ref.Envelope{}, err
		}
		var hdr [4]byte
		if _, err := io.ReadFull(hostR, hdr[:]); err != nil {
			return ref.Envelope{}, fmt.Errorf("reading reply length: %v", err)
		}
		n := binary.BigEndian.Uint32(hdr[:])
		if n > 1<<24 {
			return ref.Envelope{}, fmt.Errorf("reply length %d", n)
		}
		payload := make([]byte, n)
		if _, err := io.ReadFull(hostR, payload); err != nil {
			return ref.Envelope{}, fmt.Errorf("reading reply body: %v", err)
		}
		e, used, err := ref.DecodeEnvelope(payload)
		if err != nil {
			return ref.Envelope{}, fmt.Errorf("reply is not an envelope: %v", err)
		}
		if used != len(payload) {
			return e, fmt.Errorf("reply frame has %d trailing bytes", len(payload)-used)
		}
		if e.Name != method {
			res.Failf("C16/conforming-echo", "reply to %q names %q", method, e.Name)
		}
		if e.SeqID != seq {
			res.Failf("C16/conforming-echo", "reply to %q has seqid %d, request had %d", method, e.SeqID, seq)
		}
		return e, nil
	}

	// handshake
	e, err := send("Plugin:handshake", ref.Struct(ref.F(1, ref.Struct())))
	if err != nil {
		res.Failf("C16/conforming-handshake", "handshake with a conforming plugin failed: %v", err)
		return
	}
	succ, ok := e.Body.Get(0)
	if e.Type != ref.Reply || !ok {
		res.Failf("C16/conforming-handshake", "handshake reply is not a successful Reply: type=%d body=%s", e.Type, e.Body)
		return
	}
	if nm, _ := succ.Get(1); string(nm.B) != name {
		res.Failf("C16/conforming-handshake", "handshake reply carries name %q, the plugin is %q", nm.B, name)
	}
	if v, _ := succ.Get(2); v.I != APIVersion {
		res.Failf("C16/conforming-handshake", "handshake reply carries apiVersion %d, API_VERSION is %d", v.I, APIVersion)
	}
	feats, _ := succ.Get(3)
	hasSG := false
	for _, f := range feats.Items {
		if f.I == 1 {
			hasSG = true
		}
	}
	if hasSG != !ps.NoSG {
		res.Failf("C16/conforming-handshake", "SERVICE_GENERATOR advertised=%v but a generator was given=%v", hasSG, !ps.NoSG)
	}
	// generate
	wantCalls := 0
	for g := 0; g < nGen; g++ {
		reqBody := ref.Struct(
			ref.F(1, ref.List(ref.TI32, ref.I32(int32(7+g)))),
			ref.F(2, ref.Map(ref.TI32, ref.TStruct, ref.I32(int32(7+g)), ref.Struct(
				ref.F(7, ref.Str("Svc")), ref.F(1, ref.Str(fmt.Sprintf("svc%d", g))), ref.F(5, ref.List(ref.TStruct)), ref.F(6, ref.I32(1))))),
			ref.F(3, ref.Map(ref.TI32, ref.TStruct, ref.I32(1), ref.Struct(ref.F(1, ref.Str("example.com/x")), ref.F(2, ref.Str("x")), ref.F(3, ref.Str("x.thrift"))))),
			ref.F(4, ref.Str("example.com")), ref.F(5, ref.Str("/root")))
		e, err := send("ServiceGenerator:generate", ref.Struct(ref.F(1, reqBody)))
		if err != nil {
			res.Failf("C16/conforming-generate", "generate request %d failed: %v", g, err)
			return
		}
		switch {
		case ps.NoSG:
			if e.Type != ref.Exception {
				res.Failf("C16/conforming-generate", "a plugin without a generator answered generate with envelope type %d, want an exception", e.Type)
			}
		case ps.GenErr:
			wantCalls++
			if e.Type != ref.Exception {
				res.Failf("C16/conforming-generate", "the generator failed but the reply has envelope type %d, want an exception", e.Type)
			}
		default:
			wantCalls++
			succ, ok := e.Body.Get(0)
			if e.Type != ref.Reply || !ok {
				res.Failf("C16/conforming-generate", "generate reply is not a successful Reply: type=%d body=%s", e.Type, e.Body)
				break
			}
			files, _ := succ.Get(1)
			got := map[string]string{}
			for i := 0; i+1 < len(files.Items); i += 2 {
				got[string(files.Items[i].B)] = string(files.Items[i+1].B)
			}
			if len(got) != len(ps.Files) {
				res.Failf("C16/conforming-generate", "generate reply carries %d files, the generator returned %d", len(got), len(ps.Files))
			}
			for _, f := range ps.Files {
				if got[f.Path] != f.Content {
					res.Failf("C16/conforming-generate", "file %q is missing or altered in the generate reply", f.Path)
				}
			}
			if !ref.Equal(log.GenReq, reqBody) {
				res.Failf("C16/conforming-generate", "the generator received %s, the host sent %s", log.GenReq, reqBody)
			}
		}
		if log.GenCalls != wantCalls {
			res.Failf("C16/conforming-generate", "after %d generate requests the generator ran %d times", wantCalls, log.GenCalls)
		}
	}
	if unknownMethod {
		e, err := send("Plugin:noSuchMethod", ref.Struct())
		if err != nil {
			res.Failf("C16/conforming-unknown-method", "an unknown method ended the conversation: %v", err)
			return
		}
		if e.Type != ref.Exception {
			res.Failf("C16/conforming-unknown-method", "an unknown method was answered with envelope type %d, want an exception", e.Type)
		}
	}
	if unknownService {
		e, err := send("Nope:generate", ref.Struct())
		if err != nil {
			res.Failf("C16/conforming-unknown-method", "an unknown service ended the conversation: %v", err)
			return
		}
		if e.Type != ref.Exception {
			res.Failf("C16/conforming-unknown-method", "an unknown service was answered with envelope type %d, want an exception", e.Type)
		}
	}
	// goodbye
	e, err = send("Plugin:goodbye", ref.Struct())
	if err != nil {
		res.Failf("C16/conforming-goodbye", "goodbye failed: %v", err)
		return
	}
	if e.Type != ref.Reply || len(e.Body.Fields) != 0 {
		res.Failf("C16/conforming-goodbye", "goodbye reply: type=%d body=%s, want an empty Reply", e.Type, e.Body)
	}
	// after goodbye the serve loop ends: the plugin exits and its stdout reaches EOF
	var one [1]byte
	if n, err := hostR.Read(one[:]); err != io.EOF {
		res.Failf("C16/conforming-goodbye", "after goodbye the plugin's stdout is not at EOF (read %d bytes, err %v)", n, err)
	}
	hostW.Close()
	hostR.Close()
	s.WaitProcess(proc)
	if proc.ExitStatus() != 0 {
		res.Failf("C16/conforming-goodbye", "the conforming plugin exited with status %d after goodbye", proc.ExitStatus())
	}
	_ = bytes.Equal
	res.Count("c16.conforming-plugin-runs", 1)
	res.Nontrivial = true
}
