// Package simio holds the simulated caller-supplied I/O objects: io.Reader
// (seekable or not), io.ReaderAt and io.Writer whose delivery schedule and
// faults are choices of the run. They stay inside the io contracts: a Read
// returns (0, nil) at most three times in a row; ReadAt returns n < len(p)
// only together with an error; data may arrive together with io.EOF; seeking
// past the end succeeds.
package simio

import (
	"errors"
	"io"

	"go.uber.org/thriftrw/internal/zzsim/simrt"
)

// ErrSimIO is the injected I/O error.
var ErrSimIO = errors.New("simulated I/O error")

// ErrBudget is panicked when a consumer exceeds its call budget.
type ErrBudget struct{ Calls int64 }

// Style of delivery.
type Style int

const (
	Full      Style = iota // everything asked for, (0, EOF) at the end
	OneByte                // one byte per Read
	Random                 // chunk size is a choice per Read (0 = all)
	Stutter                // random chunks with inserted (0, nil) reads
	FirstByte              // the first Read returns one byte, then full delivery
	nStyles
)

func (s Style) String() string {
	return [...]string{"full", "one-byte", "random", "stutter", "first-byte"}[s]
}

// Plan is the delivery and fault schedule of one reader.
type Plan struct {
	Style       Style
	EOFWithData bool // the final chunk is returned together with io.EOF
	TruncAt     int  // >= 0: the stream ends here (peer died)
	ErrAt       int  // >= 0: reads touching this offset fail with ErrSimIO
	Seekable    bool
	SeekFails   bool // the reader offers Seek, but it fails (a pipe or a socket behind an *os.File)
	ErrOnce     bool // the error at ErrAt is reported once (no bytes with it); the source then works again (a read deadline, a retryable fault)
	ErrWithData bool // the bytes just before ErrAt are returned together with the error, in one call
	Grows       int  // > 0 (seekable readers): until the first Read, the source ends this many bytes after Start (a file still being appended to)
	Start       int  // the reader is positioned here when handed over (bytes before it were consumed by someone else)
}

func (p Plan) Faulted() bool { return p.TruncAt >= 0 || p.ErrAt >= 0 }

func (p Plan) String() string {
	s := p.Style.String()
	if p.EOFWithData {
		s += "+eof-with-data"
	}
	if p.Seekable {
		s += "+seekable"
	}
	if p.SeekFails {
		s += "+seek-fails"
	}
	if p.Grows > 0 {
		s += "+still-growing(" + itoa(p.Grows) + " bytes there at first)"
	}
	if p.TruncAt >= 0 {
		s += "+trunc@" + itoa(p.TruncAt)
	}
	if p.ErrAt >= 0 {
		s += "+err@" + itoa(p.ErrAt)
		if p.ErrWithData {
			s += "(with the bytes before it)"
		}
		if p.ErrOnce {
			s += "(once)"
		}
	}
	if p.Start > 0 {
		s += "+start@" + itoa(p.Start)
	}
	return s
}

func itoa(n int) string {
	if n == 0 {
		return "0"
	}
	neg := n < 0
	if neg {
		n = -n
	}
	var b [20]byte
	i := len(b)
	for n > 0 {
		i--
		b[i] = byte('0' + n%10)
		n /= 10
	}
	if neg {
		i--
		b[i] = '-'
	}
	return string(b[i:])
}

// GenPlan draws a plan. faults: allow truncation / error injection within [0,n].
func GenPlan(n int, faults bool) Plan {
	p := Plan{TruncAt: -1, ErrAt: -1}
	p.Style = Style(simrt.Choice("io.style", int(nStyles)))
	p.EOFWithData = simrt.Choice("io.eof-with-data", 2) == 1
	p.Seekable = simrt.Choice("io.seekable", 2) == 1
	if faults {
		switch simrt.Choice("io.fault", 3) {
		case 1:
			p.TruncAt = simrt.Choice("io.trunc-at", n+1)
		case 2:
			p.ErrAt = simrt.Choice("io.err-at", n+1)
			p.ErrOnce = simrt.Choice("io.err-once", 4) == 1
			p.ErrWithData = !p.ErrOnce && simrt.Choice("io.err-with-data", 3) == 1
			if p.ErrWithData && simrt.Choice("io.err-at-the-end", 4) == 1 {
				p.ErrAt = n // the connection breaks right behind the last byte, and says so along with it
			}
		}
	} else if p.Seekable && n > 1 && simrt.Choice("io.grows", 6) == 1 {
		p.Grows = 1 + simrt.Choice("io.grows-from", n-1)
	}
	return p
}

// Reader is the simulated io.Reader.
type Reader struct {
	data   []byte
	off    int
	plan   Plan
	zeros  int
	reads  int
	Calls  int64
	Budget int64 // 0 = unlimited
	// probes of what happened
	ShortReads int
	ZeroReads  int
	SawEOFData bool
}

// SeekReader is a Reader that also implements io.Seeker.
type SeekReader struct{ *Reader }

// NewReader returns the reader for a plan: a *Reader, or a *SeekReader when
// the plan says seekable.
func NewReader(data []byte, plan Plan) (io.Reader, *Reader) {
	r := &Reader{data: data, plan: plan, off: plan.Start}
	if plan.Seekable {
		return &SeekReader{r}, r
	}
	return r, r
}

func (r *Reader) end() int {
	e := len(r.data)
	if r.plan.TruncAt >= 0 && r.plan.TruncAt < e {
		e = r.plan.TruncAt
	}
	return e
}

// Offset is the number of bytes delivered (or the position after seeks).
func (r *Reader) Offset() int { return r.off }

// StartOffset is the position the reader was handed over at.
func (r *Reader) StartOffset() int { return r.plan.Start }

func (r *Reader) tick() {
	r.Calls++
	if r.Budget > 0 && r.Calls > r.Budget {
		panic(ErrBudget{r.Calls})
	}
	simrt.YieldNow()
}

func (r *Reader) Read(p []byte) (int, error) {
	r.tick()
	if len(p) == 0 {
		return 0, nil
	}
	end := r.end()
	limit := end
	if r.plan.ErrAt >= 0 && r.plan.ErrAt < limit {
		limit = r.plan.ErrAt
	}
	if r.off >= limit {
		if r.plan.ErrAt >= 0 && r.plan.ErrAt <= end && r.off >= r.plan.ErrAt {
			pIOErr.Hit()
			if r.plan.ErrOnce {
				pErrOnce.Hit()
				r.plan.ErrAt = -1 // reported; the next call finds the source working
			}
			return 0, ErrSimIO
		}
		return 0, io.EOF
	}
	avail := limit - r.off
	if avail > len(p) {
		avail = len(p)
	}
	n := avail
	r.reads++
	switch r.plan.Style {
	case OneByte:
		n = 1
	case FirstByte:
		if r.reads == 1 {
			n = 1
		}
	case Random, Stutter:
		if r.plan.Style == Stutter && r.zeros < 3 && simrt.ChoiceBias("io.zero-read", 2, 0.7) == 1 {
			r.zeros++
			r.ZeroReads++
			pZeroRead.Hit()
			return 0, nil
		}
		r.zeros = 0
		if avail > 1 {
			if k := simrt.ChoiceBias("io.chunk", avail, 0.3); k > 0 {
				n = k
			}
		}
	}
	if n < avail {
		r.ShortReads++
	}
	copy(p, r.data[r.off:r.off+n])
	r.off += n
	if r.plan.ErrWithData && r.plan.ErrAt >= 0 && r.plan.ErrAt <= end && r.off == r.plan.ErrAt {
		pIOErr.Hit()
		pErrWithData.Hit()
		return n, ErrSimIO
	}
	if r.off == end && limit == end && r.plan.EOFWithData {
		r.SawEOFData = true
		pEOFWithData.Hit()
		return n, io.EOF
	}
	return n, nil
}

func (r *SeekReader) Seek(offset int64, whence int) (int64, error) {
	r.tick()
	if r.plan.SeekFails {
		pSeekFailed.Hit()
		return 0, errors.New("simio: illegal seek")
	}
	var abs int64
	switch whence {
	case io.SeekStart:
		abs = offset
	case io.SeekCurrent:
		abs = int64(r.off) + offset
	case io.SeekEnd:
		abs = int64(r.end()) + offset
		if g := r.plan.Start + r.plan.Grows; r.plan.Grows > 0 && r.reads == 0 && g < r.end() {
			// nothing has been read yet: the rest of the data has not arrived
			pGrowingEnd.Hit()
			abs = int64(g) + offset
		}
	default:
		return 0, errors.New("simio: invalid whence")
	}
	if abs < 0 {
		return 0, errors.New("simio: negative position")
	}
	if abs > 1<<40 {
		abs = 1 << 40
	}
	pSeek.Hit()
	r.off = int(abs)
	return abs, nil
}

// ReaderAt is the simulated io.ReaderAt.
type ReaderAt struct {
	data   []byte
	plan   Plan
	Calls  int64
	Budget int64
	MaxEnd int64 // highest offset+n successfully read
}

func NewReaderAt(data []byte, plan Plan) *ReaderAt { return &ReaderAt{data: data, plan: plan} }

func (r *ReaderAt) ReadAt(p []byte, off int64) (int, error) {
	r.Calls++
	if r.Budget > 0 && r.Calls > r.Budget {
		panic(ErrBudget{r.Calls})
	}
	simrt.YieldNow()
	if off < 0 {
		return 0, errors.New("simio: negative offset")
	}
	end := int64(len(r.data))
	if r.plan.TruncAt >= 0 && int64(r.plan.TruncAt) < end {
		end = int64(r.plan.TruncAt)
	}
	limit := end
	errAt := int64(-1)
	if r.plan.ErrAt >= 0 && int64(r.plan.ErrAt) <= end {
		errAt = int64(r.plan.ErrAt)
		if errAt < limit {
			limit = errAt
		}
	}
	if len(p) == 0 {
		return 0, nil
	}
	if off >= limit {
		if errAt >= 0 && off >= errAt {
			pIOErr.Hit()
			if r.plan.ErrOnce {
				pErrOnce.Hit()
				r.plan.ErrAt = -1
			}
			return 0, ErrSimIO
		}
		return 0, io.EOF
	}
	n := copy(p, r.data[off:limit])
	if int64(off)+int64(n) > r.MaxEnd {
		r.MaxEnd = off + int64(n)
	}
	if n < len(p) {
		if errAt >= 0 && limit == errAt {
			pIOErr.Hit()
			if r.plan.ErrOnce {
				pErrOnce.Hit()
				r.plan.ErrAt = -1
			}
			return n, ErrSimIO
		}
		return n, io.EOF
	}
	if off+int64(n) == end && limit == end && r.plan.EOFWithData {
		pEOFWithData.Hit()
		return n, io.EOF
	}
	return n, nil
}

// Writer is the simulated io.Writer: it collects what was written and may
// fail once a byte budget is reached.
type Writer struct {
	Buf    []byte
	FailAt int // >= 0: the write that would pass this many bytes fails
	Calls  int64
	Failed bool
	// Once: the write that would pass FailAt is refused as a whole, once; what is written
	// afterwards is accepted (a transient fault, a writer that only takes what fits)
	Once    bool
	Refused int
}

func NewWriter(failAt int) *Writer { return &Writer{FailAt: failAt} }

func (w *Writer) Write(p []byte) (int, error) {
	w.Calls++
	simrt.YieldNow()
	if w.Failed {
		return 0, ErrSimIO
	}
	if w.Once && w.FailAt >= 0 && w.Refused == 0 && len(w.Buf)+len(p) > w.FailAt {
		w.Refused++
		pIOErr.Hit()
		pWriteRefusedOnce.Hit()
		return 0, ErrSimIO
	}
	if !w.Once && w.FailAt >= 0 && len(w.Buf)+len(p) > w.FailAt {
		n := w.FailAt - len(w.Buf)
		if n < 0 {
			n = 0
		}
		w.Buf = append(w.Buf, p[:n]...)
		w.Failed = true
		pIOErr.Hit()
		return n, ErrSimIO
	}
	w.Buf = append(w.Buf, p...)
	return len(p), nil
}

var (
	pIOErr       = simrt.NewProbe("fault.io-error")
	pErrWithData = simrt.NewProbe("fault.io-error-together-with-the-last-bytes")
	pGrowingEnd  = simrt.NewProbe("io.seek-end-before-the-rest-arrived")
	pZeroRead    = simrt.NewProbe("io.zero-length-read")
	pWriteRefusedOnce = simrt.NewProbe("fault.one-write-refused-then-accepted")
	pErrOnce     = simrt.NewProbe("fault.io-error-once-then-recovered")
	pEOFWithData = simrt.NewProbe("io.eof-with-data")
	pSeek        = simrt.NewProbe("io.seek")
	pSeekFailed  = simrt.NewProbe("io.seek-failed")
)

// GrowingReaderAt is an io.ReaderAt over a buffer that records are appended to before the
// readers start (never while they run).
type GrowingReaderAt struct{ Buf []byte }

// Append adds a record and returns its offset.
func (g *GrowingReaderAt) Append(rec []byte) int64 {
	off := int64(len(g.Buf))
	g.Buf = append(g.Buf, rec...)
	return off
}

func (g *GrowingReaderAt) ReadAt(p []byte, off int64) (int, error) {
	simrt.YieldNow()
	if off >= int64(len(g.Buf)) {
		return 0, io.EOF
	}
	n := copy(p, g.Buf[off:])
	if n < len(p) {
		return n, io.EOF
	}
	return n, nil
}
