package main

import (
	"bytes"
	"encoding/json"
	"fmt"
	"go/ast"
	"go/parser"
	"go/token"
	"os"
	"os/exec"
	"path/filepath"
	"sort"
	"strings"
	"time"

	"verif/seam"
)

const scratchRoot = "/var/tmp/verif-scratch"

// verifDir is the directory of the machinery itself: /verif, or the copy that
// bin/check was started from (VSIM_VERIF), so that a run from a snapshot does
// not pick up files of a tree that is being edited.
var verifDir = func() string {
	if d := os.Getenv("VSIM_VERIF"); d != "" {
		return d
	}
	return "/verif"
}()

// repoDir is the tree under test: /repo, unless VSIM_REPO points at a scratch
// worktree (used only by bin/mutant-test to try patches without touching /repo).
var repoDir = func() string {
	if d := os.Getenv("VSIM_REPO"); d != "" {
		return d
	}
	return "/repo"
}()

// Build is the result of preparing a scratch copy of /repo's working tree.
type Build struct {
	Dir           string // scratch root (removed by Cleanup)
	Src           string // rewritten module copy
	Bin           string // directory of built binaries
	SimTest       string // test binary of package main (root)
	TBTest        string // test binary of cmd/thriftbreak
	Seam          *seam.Report
	Registry      int // generated types in the registry
	Wall          map[string]float64
	Race          bool
	Dropped       []string // regenerated packages dropped because they do not compile
	APIVersion    int      // API_VERSION read from the tree\'s plugin/api.thrift (0: not found)
	RandomSchemas int
}

func goEnv() []string {
	env := os.Environ()
	env = append(env,
		"GOFLAGS=-mod=mod", "GOPROXY=off", "GOSUMDB=off", "GOTOOLCHAIN=local",
		"GOWORK=off", "CGO_ENABLED=1",
	)
	return env
}

func runCmd(dir string, env []string, name string, args ...string) (string, error) {
	cmd := exec.Command(name, args...)
	cmd.Dir = dir
	cmd.Env = env
	var out bytes.Buffer
	cmd.Stdout = &out
	cmd.Stderr = &out
	err := cmd.Run()
	if err != nil {
		return out.String(), fmt.Errorf("%s %s: %v\n%s", name, strings.Join(args, " "), err, tail(out.String(), 6000))
	}
	return out.String(), nil
}

func tail(s string, n int) string {
	if len(s) > n {
		return "...\n" + s[len(s)-n:]
	}
	return s
}

type buildOpts struct {
	Tag           string // scratch directory tag
	Race          bool
	NeedTB        bool // also build cmd/thriftbreak test binary
	NeedRoot      bool
	ExtraSeed     uint64 // thorough: seeded random schemas (0 = none)
	Corpus        bool   // regenerate the schema corpus (only the wire-world checks over generated code need it)
	RandomSchemas int    // seeded random programs added to the corpus (thorough tier)
}

// PrepareBuild copies /repo's current working tree, regenerates the schema
// corpus with the tree's own generator, applies the seam rewriter, overlays the
// harness and compiles the worker binaries.
func PrepareBuild(o buildOpts) (*Build, error) {
	b := &Build{Wall: map[string]float64{}, Race: o.Race}
	b.Dir = filepath.Join(scratchRoot, fmt.Sprintf("%s-%d", o.Tag, os.Getpid()))
	b.Src = filepath.Join(b.Dir, "src")
	b.Bin = filepath.Join(b.Dir, "bin")
	os.RemoveAll(b.Dir)
	if err := os.MkdirAll(b.Bin, 0755); err != nil {
		return nil, err
	}
	env := goEnv()
	t0 := time.Now()
	lap := func(name string) {
		b.Wall[name] = time.Since(t0).Seconds()
		t0 = time.Now()
	}

	// 1. copy working tree
	if out, err := runCmd("/", env, "rsync", "-a", "--exclude=.git", "--exclude=*_test.go", "--exclude=/build", repoDir+"/", b.Src+"/"); err != nil {
		return b, fmt.Errorf("copy: %v %s", err, out)
	}
	lap("copy")

	// the plugin protocol's API_VERSION is part of the IDL, not of the harness
	if data, err := os.ReadFile(filepath.Join(b.Src, "plugin", "api.thrift")); err == nil {
		for _, line := range strings.Split(string(data), "\n") {
			f := strings.Fields(line)
			if len(f) >= 5 && f[0] == "const" && f[2] == "API_VERSION" && f[3] == "=" {
				fmt.Sscanf(f[4], "%d", &b.APIVersion)
			}
		}
	}

	// 2. the tree's own generator, unmodified
	gen := filepath.Join(b.Bin, "thriftrw")
	if _, err := runCmd(b.Src, env, "go", "build", "-trimpath", "-o", gen, "."); err != nil {
		return b, fmt.Errorf("build generator: %v", err)
	}
	lap("build-generator")

	// 3a. harness overlay
	if out, err := runCmd("/", env, "rsync", "-a", filepath.Join(verifDir, "overlay")+"/", b.Src+"/"); err != nil {
		return b, fmt.Errorf("overlay: %v %s", err, out)
	}
	if err := patchGoMod(b.Src); err != nil {
		return b, err
	}
	lap("overlay-copy")

	// 3. regenerate corpus
	genRoot := filepath.Join(b.Src, "internal", "zzsim", "gen")
	type corpus struct {
		sub, root string
		files     []string
	}
	var corpora []corpus
	{
		root := filepath.Join(b.Src, "gen", "internal", "tests", "thrift")
		fs, _ := filepath.Glob(filepath.Join(root, "*.thrift"))
		sort.Strings(fs)
		if o.Corpus {
			// wrapper structs that use every typedef, enum and struct of the repository's schemas
			var plain []string
			for _, f := range fs {
				switch filepath.Base(f) {
				case "nozap.thrift", "enum-text-marshal-strict.thrift": // generated with their own flags
				default:
					plain = append(plain, f)
				}
			}
			if outp, err := runCmd(b.Src, env, "go", append([]string{"run", "./internal/zzsim/cmd/emitwrappers"}, plain...)...); err != nil {
				return b, fmt.Errorf("emit wrapper schemas: %v %s", err, outp)
			} else {
				for _, w := range strings.Fields(outp) {
					fs = append(fs, w)
				}
			}
		}
		corpora = append(corpora, corpus{"t", root, fs})
		corpora = append(corpora, corpus{"p", filepath.Join(b.Src, "plugin"), []string{filepath.Join(b.Src, "plugin", "api.thrift")}})
		sroot := filepath.Join(verifDir, "schemas")
		ss, _ := filepath.Glob(filepath.Join(sroot, "*.thrift"))
		sort.Strings(ss)
		if len(ss) > 0 {
			corpora = append(corpora, corpus{"s", sroot, ss})
		}
	}
	if !o.Corpus {
		corpora = nil
	}
	if o.Corpus && o.RandomSchemas > 0 {
		// seeded random programs, emitted by the harness's own generator
		rdir := filepath.Join(b.Dir, "random-schemas")
		outp, err := runCmd(b.Src, env, "go", "run", "./internal/zzsim/cmd/emitschemas", "-seed", fmt.Sprint(o.ExtraSeed), "-n", fmt.Sprint(o.RandomSchemas), "-out", rdir)
		if err != nil {
			return b, fmt.Errorf("emit random schemas: %v", err)
		}
		for i, line := range strings.Split(strings.TrimSpace(outp), "\n") {
			f := strings.Split(line, "\t")
			if len(f) != 2 {
				continue
			}
			corpora = append(corpora, corpus{fmt.Sprintf("r%d", i), f[0], []string{f[1]}})
		}
		b.RandomSchemas = o.RandomSchemas
	}
	for _, c := range corpora {
		out := filepath.Join(genRoot, c.sub)
		os.MkdirAll(out, 0755)
		for _, f := range c.files {
			args := []string{"--out", out, "--pkg-prefix", seam.ZZ + "/gen/" + c.sub, "--thrift-root", c.root}
			base := filepath.Base(f)
			switch base {
			case "nozap.thrift":
				args = append(args, "--no-recurse", "--no-zap")
			case "enum-text-marshal-strict.thrift":
				args = append(args, "--no-recurse", "--enum-text-marshal-strict")
			}
			args = append(args, f)
			if o, err := runCmd(b.Src, env, gen, args...); err != nil {
				if strings.HasPrefix(c.sub, "r") {
					b.Dropped = append(b.Dropped, "random schema "+c.sub+" (generator rejected it)")
					os.RemoveAll(out)
					continue
				}
				return b, fmt.Errorf("regenerate %s: %v %s", f, err, o)
			}
		}
	}
	lap("regenerate")

	// 4. registry
	if o.Corpus {
		// A regenerated package that does not compile is C06's territory, not a
		// reason to lose this check: drop it (recorded in the evidence) and go on.
		for round := 0; round < 6; round++ {
			out, err := runCmd(b.Src, env, "go", "build", "./internal/zzsim/gen/...")
			if err == nil {
				break
			}
			dropped := 0
			for _, line := range strings.Split(out+err.Error(), "\n") {
				if i := strings.Index(line, "internal/zzsim/gen/"); i >= 0 && strings.Contains(line, ".go:") {
					rel := line[i:]
					if j := strings.Index(rel, ".go:"); j > 0 {
						dir := filepath.Dir(rel[:j+3])
						if dir != "internal/zzsim/gen/registry" {
							if _, serr := os.Stat(filepath.Join(b.Src, dir)); serr == nil {
								os.RemoveAll(filepath.Join(b.Src, dir))
								b.Dropped = append(b.Dropped, dir)
								dropped++
							}
						}
					}
				}
			}
			if dropped == 0 {
				return b, fmt.Errorf("regenerated corpus does not build: %v", err)
			}
		}
	}
	n, err := writeRegistry(genRoot, filepath.Join(genRoot, "registry", "registry.go"))
	if err != nil {
		return b, fmt.Errorf("registry: %v", err)
	}
	b.Registry = n
	lap("overlay")

	// 5. seams
	rep, err := seam.Rewrite(b.Src, env)
	if err != nil {
		return b, fmt.Errorf("seam rewriter: %v", err)
	}
	b.Seam = rep
	lap("seam")

	// 6. worker binaries
	args := []string{"test", "-c", "-trimpath", "-vet=off", "-tags", "verifsim"}
	if o.Race {
		args = append(args, "-race")
	}
	if os.Getenv("VSIM_COVER") != "" {
		// development aid (tools/coverage.sh): statement coverage of the code under test
		args = append(args, "-cover", "-covermode=atomic", "-coverpkg=go.uber.org/thriftrw/...")
	}
	if o.NeedRoot {
		b.SimTest = filepath.Join(b.Bin, "sim.test")
		if _, err := runCmd(b.Src, env, "go", append(args, "-o", b.SimTest, ".")...); err != nil {
			return b, fmt.Errorf("build worker: %v", err)
		}
	}
	if o.NeedTB {
		b.TBTest = filepath.Join(b.Bin, "tb.test")
		if _, err := runCmd(b.Src, env, "go", append(args, "-o", b.TBTest, "./cmd/thriftbreak")...); err != nil {
			return b, fmt.Errorf("build thriftbreak worker: %v", err)
		}
	}
	lap("compile")
	if b.APIVersion > 0 {
		apiVersionEnv = fmt.Sprint(b.APIVersion)
	}
	return b, nil
}

func (b *Build) Cleanup() {
	if b != nil && b.Dir != "" && os.Getenv("VSIM_KEEP") == "" {
		os.RemoveAll(b.Dir)
	}
}

func patchGoMod(src string) error {
	p := filepath.Join(src, "go.mod")
	data, err := os.ReadFile(p)
	if err != nil {
		return err
	}
	lines := strings.Split(string(data), "\n")
	for i, l := range lines {
		if strings.HasPrefix(l, "go ") {
			lines[i] = "go 1.23"
		}
		if strings.HasPrefix(l, "toolchain ") {
			lines[i] = ""
		}
	}
	out := strings.Join(lines, "\n") + "\nrequire github.com/anishathalye/porcupine v1.3.0\n"
	return os.WriteFile(p, []byte(out), 0644)
}

// writeRegistry scans the regenerated corpus for struct-like generated types
// (those with ToWire, FromWire, Encode and Decode methods) and writes a Go file
// listing a constructor for each.
func writeRegistry(genRoot, outFile string) (int, error) {
	type ent struct{ pkgPath, pkgName, typ string }
	var ents []ent
	fset := token.NewFileSet()
	err := filepath.Walk(genRoot, func(path string, info os.FileInfo, err error) error {
		if err != nil {
			return err
		}
		if !info.IsDir() || strings.HasSuffix(path, "/registry") {
			return nil
		}
		pkgs, err := parser.ParseDir(fset, path, func(fi os.FileInfo) bool { return !strings.HasSuffix(fi.Name(), "_test.go") }, 0)
		if err != nil {
			return err
		}
		rel, _ := filepath.Rel(genRoot, path)
		for name, pkg := range pkgs {
			methods := map[string]map[string]bool{}
			structs := map[string]bool{}
			aliases := map[string]string{}
			for _, f := range pkg.Files {
				for _, d := range f.Decls {
					switch v := d.(type) {
					case *ast.FuncDecl:
						if v.Recv == nil || len(v.Recv.List) != 1 {
							continue
						}
						var tn string
						switch t := v.Recv.List[0].Type.(type) {
						case *ast.StarExpr:
							if id, ok := t.X.(*ast.Ident); ok {
								tn = id.Name
							}
						case *ast.Ident:
							tn = t.Name
						}
						if tn == "" {
							continue
						}
						if methods[tn] == nil {
							methods[tn] = map[string]bool{}
						}
						methods[tn][v.Name.Name] = true
					case *ast.GenDecl:
						for _, sp := range v.Specs {
							if ts, ok := sp.(*ast.TypeSpec); ok {
								if _, ok := ts.Type.(*ast.StructType); ok {
									structs[ts.Name.Name] = true
								}
								if id, ok := ts.Type.(*ast.Ident); ok {
									aliases[ts.Name.Name] = id.Name // `typedef Node List` comes out as `type List Node`
								}
							}
						}
					}
				}
			}
			// a typedef of a struct of the same package is a struct-like type of its own
			for changed := true; changed; {
				changed = false
				for a, t := range aliases {
					if structs[t] && !structs[a] {
						structs[a], changed = true, true
					}
				}
			}
			for tn, ms := range methods {
				if structs[tn] && ms["ToWire"] && ms["FromWire"] && ms["Encode"] && ms["Decode"] && ast.IsExported(tn) {
					ents = append(ents, ent{seam.ZZ + "/gen/" + filepath.ToSlash(rel), name, tn})
				}
			}
		}
		return nil
	})
	if err != nil {
		return 0, err
	}
	sort.Slice(ents, func(i, j int) bool {
		if ents[i].pkgPath != ents[j].pkgPath {
			return ents[i].pkgPath < ents[j].pkgPath
		}
		return ents[i].typ < ents[j].typ
	})
	var buf bytes.Buffer
	buf.WriteString("// Code generated by vsim. DO NOT EDIT.\n\npackage registry\n\nimport (\n")
	alias := map[string]string{}
	var paths []string
	for _, e := range ents {
		if _, ok := alias[e.pkgPath]; !ok {
			alias[e.pkgPath] = fmt.Sprintf("p%d", len(alias))
			paths = append(paths, e.pkgPath)
		}
	}
	for _, p := range paths {
		fmt.Fprintf(&buf, "\t%s %q\n", alias[p], p)
	}
	buf.WriteString(")\n\nfunc init() {\n")
	for _, e := range ents {
		short := strings.TrimPrefix(e.pkgPath, seam.ZZ+"/gen/")
		fmt.Fprintf(&buf, "\tTypes = append(Types, Entry{Name: %q, New: func() Generated { return new(%s.%s) }})\n", short+"."+e.typ, alias[e.pkgPath], e.typ)
	}
	buf.WriteString("}\n")
	os.MkdirAll(filepath.Dir(outFile), 0755)
	return len(ents), os.WriteFile(outFile, buf.Bytes(), 0644)
}

func (b *Build) reportJSON() string {
	j, _ := json.MarshalIndent(b.Seam, "", " ")
	return string(j)
}
