// Package simexec is the os/exec seam: an API-compatible subset whose
// processes are simulator tasks and whose pipes are simulated pipes.
package simexec

import (
	"context"
	"errors"
	"fmt"
	"io"
	"io/fs"
	"os"
	osexec "os/exec"
	"strings"
	gosync "sync"
	"syscall"

	"go.uber.org/thriftrw/internal/zzsim/simrt"
)

// Real switches the seam to the real os/exec (stub-fidelity cross-check only):
// the same rewritten code then starts real processes over real pipes.
var Real bool

// RealLog records what the real-mode seam saw, for the cross-check.
var RealLog []string

var realLogMu gosync.Mutex

func realLog(format string, a ...interface{}) {
	realLogMu.Lock()
	RealLog = append(RealLog, fmt.Sprintf(format, a...))
	realLogMu.Unlock()
}

// ErrNotFound is the error resulting if a path search failed to find an
// executable file.
var ErrNotFound = errors.New("executable file not found in $PATH")

// Error is returned by LookPath when it fails to classify a file as an executable.
type Error struct {
	Name string
	Err  error
}

func (e *Error) Error() string { return "exec: " + fmt.Sprintf("%q", e.Name) + ": " + e.Err.Error() }
func (e *Error) Unwrap() error { return e.Err }

// ExitError reports an unsuccessful exit by a command.
type ExitError struct {
	Status int
	Stderr []byte
}

// A negative status stands for death by a signal (os/exec reports ExitCode() -1 then).
func (e *ExitError) Error() string {
	if e.Status < 0 {
		return "signal: killed"
	}
	return fmt.Sprintf("exit status %d", e.Status)
}
func (e *ExitError) ExitCode() int {
	if e.Status < 0 {
		return -1
	}
	return e.Status
}

const simBin = "/sim/bin/"

// LookPath searches the run's table of simulated executables.
func LookPath(file string) (string, error) {
	if Real {
		return osexec.LookPath(file)
	}
	s := simrt.S
	if s == nil {
		return "", &Error{file, ErrNotFound}
	}
	name := file
	if strings.Contains(file, "/") {
		if !strings.HasPrefix(file, simBin) {
			return "", &Error{file, fs.ErrNotExist}
		}
		name = strings.TrimPrefix(file, simBin)
	}
	if s.LookupExec(name) == nil {
		return "", &Error{file, ErrNotFound}
	}
	return simBin + name, nil
}

// Cmd mirrors the fields and methods of os/exec.Cmd that matter for a child
// with piped stdin/stdout.
type Cmd struct {
	Path   string
	Args   []string
	Env    []string
	Dir    string
	Stdin  io.Reader
	Stdout io.Writer
	Stderr io.Writer
	Err    error

	Process *simrt.Process

	childStdin   *simrt.PipeReader
	childStdout  *simrt.PipeWriter
	parentStdin  *simrt.PipeWriter
	parentStdout *simrt.PipeReader
	started      bool
	waited       bool
	real         *osexec.Cmd
}

// Command returns the Cmd struct to execute the named program.
func Command(name string, arg ...string) *Cmd {
	if Real {
		rc := osexec.Command(name, arg...)
		return &Cmd{Path: rc.Path, Args: rc.Args, Err: rc.Err, real: rc}
	}
	cmd := &Cmd{Path: name, Args: append([]string{name}, arg...)}
	if !strings.Contains(name, "/") {
		lp, err := LookPath(name)
		if lp != "" {
			cmd.Path = lp
		}
		if err != nil {
			cmd.Err = err
		}
	}
	return cmd
}

// CommandContext is Command; the host under test has no cancellation, so the
// context is not consulted (a change that starts to rely on it is reported by
// the liveness oracle if a run then never ends).
func CommandContext(_ context.Context, name string, arg ...string) *Cmd { return Command(name, arg...) }

func baseOf(p string) string {
	if i := strings.LastIndex(p, "/"); i >= 0 {
		return p[i+1:]
	}
	return p
}

func (c *Cmd) String() string { return strings.Join(c.Args, " ") }

func (c *Cmd) baseName() string { return strings.TrimPrefix(c.Path, simBin) }

// StdinPipe returns a pipe that will be connected to the command's standard
// input when the command starts.
func (c *Cmd) StdinPipe() (io.WriteCloser, error) {
	if c.real != nil {
		return c.real.StdinPipe()
	}
	if c.Stdin != nil {
		return nil, errors.New("exec: Stdin already set")
	}
	if c.started {
		return nil, errors.New("exec: StdinPipe after process started")
	}
	p := simrt.NewPipe(c.baseName() + ".stdin")
	c.childStdin = &simrt.PipeReader{P: p, Tag: c.baseName() + ".stdin.child"}
	c.parentStdin = &simrt.PipeWriter{P: p, Tag: c.baseName() + ".stdin.host"}
	c.Stdin = c.childStdin
	return c.parentStdin, nil
}

// StdoutPipe returns a pipe that will be connected to the command's standard
// output when the command starts.
func (c *Cmd) StdoutPipe() (io.ReadCloser, error) {
	if c.real != nil {
		return c.real.StdoutPipe()
	}
	if c.Stdout != nil {
		return nil, errors.New("exec: Stdout already set")
	}
	if c.started {
		return nil, errors.New("exec: StdoutPipe after process started")
	}
	p := simrt.NewPipe(c.baseName() + ".stdout")
	c.childStdout = &simrt.PipeWriter{P: p, Tag: c.baseName() + ".stdout.child"}
	c.parentStdout = &simrt.PipeReader{P: p, Tag: c.baseName() + ".stdout.host"}
	c.Stdout = c.childStdout
	return c.parentStdout, nil
}

func (c *Cmd) closeAll() {
	if c.childStdin != nil {
		c.childStdin.CloseQuiet()
		c.parentStdin.CloseQuiet()
	}
	if c.childStdout != nil {
		c.childStdout.CloseQuiet()
		c.parentStdout.CloseQuiet()
	}
}

// Start starts the specified command but does not wait for it to complete.
func (c *Cmd) Start() error {
	if c.real != nil {
		c.real.Stderr = c.Stderr
		c.real.Env = c.Env
		c.real.Dir = c.Dir
		err := c.real.Start()
		realLog("start %s err=%v", baseOf(c.Path), err != nil)
		return err
	}
	s := simrt.S
	if s == nil {
		return errors.New("simexec: no run in progress")
	}
	if c.started {
		return errors.New("exec: already started")
	}
	c.started = true
	if c.Path == "" && c.Err == nil {
		c.Err = errors.New("exec: no command")
	}
	if c.Err != nil {
		c.closeAll()
		return c.Err
	}
	e := s.LookupExec(c.baseName())
	if e == nil {
		c.closeAll()
		return &fs.PathError{Op: "fork/exec", Path: c.Path, Err: syscall.ENOENT}
	}
	simrt.YieldNow()
	if e.StartErr != nil {
		c.closeAll()
		simrt.Emit("proc-start-failed", e.Name, 0, e.StartErr.Error())
		pStartFail.Hit()
		return &fs.PathError{Op: "fork/exec", Path: c.Path, Err: e.StartErr}
	}
	c.Process = s.StartProcess(e, c.Path, c.Args, c.childStdin, c.childStdout)
	simrt.YieldNow()
	return nil
}

// Wait waits for the command to exit and releases the parent's pipe ends.
func (c *Cmd) Wait() error {
	if c.real != nil {
		err := c.real.Wait()
		realLog("reaped %s err=%v", baseOf(c.Path), err != nil)
		return err
	}
	s := simrt.S
	if c.Process == nil {
		return errors.New("exec: not started")
	}
	if c.waited {
		return errors.New("exec: Wait was already called")
	}
	c.waited = true
	s.WaitProcess(c.Process)
	if c.parentStdin != nil {
		c.parentStdin.CloseQuiet()
	}
	if c.parentStdout != nil {
		c.parentStdout.CloseQuiet()
	}
	// os/exec: when Stdout or Stderr is not an *os.File it is fed through a pipe by a copying
	// goroutine, and Wait waits for that goroutine, i.e. until every descendant of the child
	// that inherited the pipe has closed it. With an *os.File the descriptor is handed over
	// and nobody waits.
	if c.Process.Helper && c.Stderr != nil {
		if _, isFile := c.Stderr.(*os.File); !isFile {
			s.WaitForever(c.Process)
		}
	}
	if st := c.Process.ExitStatus(); st != 0 {
		return &ExitError{Status: st}
	}
	return nil
}

// Run starts the specified command and waits for it to complete.
func (c *Cmd) Run() error {
	if err := c.Start(); err != nil {
		return err
	}
	return c.Wait()
}

var pStartFail = simrt.NewProbe("fault.start-failed")
