// Package simsync is the `sync` seam. Mutex, WaitGroup and Pool are simulated;
// everything else is the real thing (its use by code under test is reported by
// the seam rewriter as an unsimulated primitive).
package simsync

import (
	"sync"

	"go.uber.org/thriftrw/internal/zzsim/simrt"
)

type (
	Mutex     = simrt.Mutex
	WaitGroup = simrt.WaitGroup
	Pool      = simrt.Pool
	RWMutex   = simrt.RWMutex
	Once      = simrt.Once

	Cond   = sync.Cond
	Map    = sync.Map
	Locker = sync.Locker
)

func NewCond(l Locker) *Cond { return sync.NewCond(l) }

// OnceFunc, OnceValue and OnceValues are built on the simulated Once.
func OnceFunc(f func()) func() {
	var o Once
	return func() { o.Do(f) }
}

func OnceValue[T any](f func() T) func() T {
	var o Once
	var v T
	return func() T { o.Do(func() { v = f() }); return v }
}

func OnceValues[T1, T2 any](f func() (T1, T2)) func() (T1, T2) {
	var o Once
	var v1 T1
	var v2 T2
	return func() (T1, T2) { o.Do(func() { v1, v2 = f() }); return v1, v2 }
}
