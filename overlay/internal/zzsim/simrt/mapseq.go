package simrt

import (
	"fmt"
	"iter"
	"math"
	"reflect"
	"sort"
)

// MapOrder is the per-run policy for the order in which ranged maps are
// walked (search mode; a replayed run takes every pick from the stream).
type MapOrder uint8

const (
	MapSorted MapOrder = iota
	MapReverse
	MapRotate
	MapRandom
	MapSwapFirst // sorted except that one key is moved to the front
)

// SetMapOrder sets the map-order policy of the run.
//
//go:norace
func (s *Sim) SetMapOrder(m MapOrder) { s.mapOrder = m }

// MapSeq is the seam for `for k, v := range m`: it snapshots the keys present
// at loop start, sorts them canonically, permutes them by choices of the run
// and yields (k, m[k]) for every key still present — a legal refinement of
// Go's map iteration semantics.
func MapSeq[M ~map[K]V, K comparable, V any](m M, site string) iter.Seq2[K, V] {
	return func(yield func(K, V) bool) {
		n := len(m)
		if n == 0 {
			return
		}
		if n == 1 {
			for k, v := range m {
				yield(k, v)
				return
			}
		}
		keys := make([]K, 0, n)
		var unfindable map[int]V // values of keys that do not equal themselves (NaN): m[k] cannot find them again
		for k, v := range m {
			if k != k {
				if unfindable == nil {
					unfindable = map[int]V{}
				}
				unfindable[len(keys)] = v
			}
			keys = append(keys, k)
		}
		if unfindable != nil {
			// keep each such value with its key through sorting and permutation
			type kv struct {
				k K
				v V
				u bool
			}
			pairs := make([]kv, len(keys))
			for i, k := range keys {
				v, u := unfindable[i]
				pairs[i] = kv{k, v, u}
			}
			sort.SliceStable(pairs, func(i, j int) bool {
				return lessReflect(reflect.ValueOf(pairs[i].k), reflect.ValueOf(pairs[j].k))
			})
			if s := S; s != nil {
				perm := s.permutation(n, site)
				pp := make([]kv, n)
				for i, j := range perm {
					pp[i] = pairs[j]
				}
				pairs = pp
			}
			for _, p := range pairs {
				v := p.v
				if !p.u {
					var ok bool
					if v, ok = m[p.k]; !ok {
						continue
					}
				}
				if !yield(p.k, v) {
					return
				}
			}
			return
		}
		sortKeys(keys)
		if s := S; s != nil {
			perm := s.permutation(n, site)
			pk := make([]K, n)
			for i, j := range perm {
				pk[i] = keys[j]
			}
			keys = pk
		}
		for _, k := range keys {
			v, ok := m[k]
			if !ok {
				continue
			}
			if !yield(k, v) {
				return
			}
		}
	}
}

// SortedMapKeys is the seam for reflect.Value.MapKeys(): canonical order
// permuted by the run.
func SortedMapKeys(keys []reflect.Value, site string) []reflect.Value {
	if len(keys) < 2 {
		return keys
	}
	sort.SliceStable(keys, func(i, j int) bool { return lessReflect(keys[i], keys[j]) })
	if s := S; s != nil {
		perm := s.permutation(len(keys), site)
		pk := make([]reflect.Value, len(keys))
		for i, j := range perm {
			pk[i] = keys[j]
		}
		return pk
	}
	return keys
}

// permutation draws a permutation of 0..n-1 as n-1 Fisher-Yates picks; all
// picks 0 is the identity (sorted order).
//
//go:norace
func (s *Sim) permutation(n int, site string) []int {
	perm := make([]int, n)
	for i := range perm {
		perm[i] = i
	}
	s.MapSites++
	if n > 64 {
		// Large maps: one rotation choice only, to keep choice lists short.
		r := s.choose("map.rot", n, 0.5)
		for i := range perm {
			perm[i] = (i + r) % n
		}
		s.mapHash = (s.mapHash ^ uint64(r+1)) * 1099511628211
		return perm
	}
	var rot, front int
	if !s.replay {
		switch s.mapOrder {
		case MapRotate:
			rot = 1 + s.srng.Intn(n-1)
		case MapSwapFirst:
			front = s.srng.Intn(n)
		}
	}
	for i := 0; i < n-1; i++ {
		var j int // pick among the remaining n-i
		if s.replay {
			j = s.choose("map", n-i, -1)
		} else {
			switch s.mapOrder {
			case MapSorted:
				j = s.chooseFixed("map", n-i, 0)
			case MapReverse:
				j = s.chooseFixed("map", n-i, n-i-1)
			case MapRotate:
				// result[i] = (i+rot)%n ; find its position among remaining
				want := (i + rot) % n
				j = 0
				for k := i; k < n; k++ {
					if perm[k] == want {
						j = k - i
					}
				}
				j = s.chooseFixed("map", n-i, j)
			case MapSwapFirst:
				if i == 0 {
					j = s.chooseFixed("map", n-i, front)
				} else {
					j = s.chooseFixed("map", n-i, 0)
				}
			default:
				j = s.choose("map", n-i, -1)
			}
		}
		// take perm[i+j], keeping the rest in sorted order
		v := perm[i+j]
		copy(perm[i+1:i+j+1], perm[i:i+j])
		perm[i] = v
		s.mapHash = (s.mapHash ^ uint64(j+1)) * 1099511628211
	}
	return perm
}

//go:norace
func (s *Sim) MapHash() uint64 { return s.mapHash }

func sortKeys[K comparable](keys []K) {
	switch ks := any(keys).(type) {
	case []string:
		sort.Strings(ks)
		return
	case []int:
		sort.Ints(ks)
		return
	case []int16:
		sort.Slice(ks, func(i, j int) bool { return ks[i] < ks[j] })
		return
	case []int32:
		sort.Slice(ks, func(i, j int) bool { return ks[i] < ks[j] })
		return
	case []int64:
		sort.Slice(ks, func(i, j int) bool { return ks[i] < ks[j] })
		return
	}
	sort.SliceStable(keys, func(i, j int) bool {
		return lessReflect(reflect.ValueOf(keys[i]), reflect.ValueOf(keys[j]))
	})
}

// LessReflect is the canonical order of map keys used by the seams.
func LessReflect(a, b reflect.Value) bool { return lessReflect(a, b) }

func lessReflect(a, b reflect.Value) bool {
	if a.Kind() == reflect.Interface {
		a = a.Elem()
	}
	if b.Kind() == reflect.Interface {
		b = b.Elem()
	}
	if a.Kind() != b.Kind() {
		return a.Kind() < b.Kind()
	}
	switch a.Kind() {
	case reflect.String:
		return a.String() < b.String()
	case reflect.Int, reflect.Int8, reflect.Int16, reflect.Int32, reflect.Int64:
		return a.Int() < b.Int()
	case reflect.Uint, reflect.Uint8, reflect.Uint16, reflect.Uint32, reflect.Uint64, reflect.Uintptr:
		return a.Uint() < b.Uint()
	case reflect.Bool:
		return !a.Bool() && b.Bool()
	case reflect.Float32, reflect.Float64:
		// a total order that includes NaNs and tells -0 from +0: by bits, sign-adjusted
		ord := func(f float64) uint64 {
			u := math.Float64bits(f)
			if u>>63 == 1 {
				return ^u
			}
			return u | 1<<63
		}
		return ord(a.Float()) < ord(b.Float())
	case reflect.Struct:
		for i := 0; i < a.NumField(); i++ {
			if lessReflect(a.Field(i), b.Field(i)) {
				return true
			}
			if lessReflect(b.Field(i), a.Field(i)) {
				return false
			}
		}
		return false
	case reflect.Array:
		for i := 0; i < a.Len(); i++ {
			if lessReflect(a.Index(i), b.Index(i)) {
				return true
			}
			if lessReflect(b.Index(i), a.Index(i)) {
				return false
			}
		}
		return false
	case reflect.Ptr, reflect.UnsafePointer, reflect.Chan:
		pUnsortableKey.Hit()
		return false // address order is not reproducible; keep as found
	}
	return fmt.Sprintf("%#v", a.Interface()) < fmt.Sprintf("%#v", b.Interface())
}

var pUnsortableKey = NewProbe("map.unsortable-key-kind")
