package wirew

import (
	"bytes"
	"errors"
	"fmt"
	"strings"

	ienvelope "go.uber.org/thriftrw/internal/envelope"
	"go.uber.org/thriftrw/internal/envelope/exception"
	"go.uber.org/thriftrw/internal/multiplex"
	"go.uber.org/thriftrw/internal/zzsim/ref"
	"go.uber.org/thriftrw/internal/zzsim/refwire"
	"go.uber.org/thriftrw/internal/zzsim/simrt"
	"go.uber.org/thriftrw/internal/zzsim/world"
	"go.uber.org/thriftrw/protocol/binary"
	"go.uber.org/thriftrw/wire"
)

// recHandler is a service handler that records what it was called with.
type recHandler struct {
	service  string
	mode     int // 0 reply, 1 plain error, 2 unknown method
	reply    ref.Val
	gotName  string
	gotBody  ref.Val
	calls    int
	errorMsg string
	echo     bool // mode 0: the reply wraps the request's own (lazily decoded) body behind another field
}

func (h *recHandler) Handle(name string, body wire.Value) (wire.Value, error) {
	h.calls++
	h.gotName = name
	if h.echo && h.mode == 0 {
		// the body is handed back as it came (its containers are still lazy views of the request)
		return wire.NewValueStruct(wire.Struct{Fields: []wire.Field{
			{ID: 1, Value: wire.NewValueString("echoed")},
			{ID: 2, Value: body},
		}}), nil
	}
	h.gotBody, _ = refwire.Force(body)
	switch h.mode {
	case 1:
		return wire.Value{}, errors.New(h.errorMsg)
	case 2:
		return wire.Value{}, ienvelope.ErrUnknownMethod(name)
	}
	return refwire.ToWire(h.reply), nil
}

type loopTransport struct {
	srv       ienvelope.Server
	requests  [][]byte
	replies   [][]byte
	handed    [][]byte // the replies as Handle handed them out (not copied)
	clobbered bool // Handle changed the bytes of a request it was given
}

func (t *loopTransport) Send(b []byte) ([]byte, error) {
	t.requests = append(t.requests, append([]byte{}, b...))
	out, err := t.srv.Handle(b)
	if !bytes.Equal(b, t.requests[len(t.requests)-1]) {
		t.clobbered = true
	}
	if err == nil {
		t.replies = append(t.replies, append([]byte{}, out...))
		t.handed = append(t.handed, out)
	}
	return out, err
}

// c12EnvServer: the internal envelope server and client with the service
// multiplexer in between: replies mirror name and sequence id, handler errors
// become Exception envelopes that the client maps to TApplicationException,
// unknown methods and services become exceptions of the unknown-method kind.
func c12EnvServer(res *world.Result, logf func(string, ...interface{}), h *world.Hasher) {
	mux := multiplex.NewHandler()
	svcNames := []string{"Svc", "Other", "svc_2"}
	if simrt.Flip("env.empty-service-name", 0.15) {
		svcNames[ch("env.empty-service-slot", 3)] = "" // a service may be registered under the empty name
	}
	handlers := map[string]*recHandler{}
	ns := 1 + ch("env.services", 3)
	// the multiplexer may be handed to the server before any service is registered with it
	var srv ienvelope.Server
	lateReg := simrt.Flip("env.register-after-server", 0.3)
	if lateReg {
		srv = ienvelope.NewServer(binary.Default, mux)
	}
	for i := 0; i < ns; i++ {
		hd := &recHandler{service: svcNames[i], mode: ch("env.handler-mode", 3), reply: genVal(ref.TStruct, 0, genOpts{maxDepth: 2}), errorMsg: fmt.Sprintf("boom-%d", ch("env.err", 100))}
		hd.echo = simrt.Flip("env.handler-echo", 0.3)
		handlers[svcNames[i]] = hd
		mux.Put(svcNames[i], hd)
	}
	if !lateReg {
		srv = ienvelope.NewServer(binary.Default, mux)
	}
	// --- through the client
	target := svcNames[ch("env.target", len(svcNames))]
	method := []string{"get", "a:b", "x:y:z", "", "M\xffq", target + ":get", target + ":" + target + ":x", ":" + target}[ch("env.method", 8)]
	body := genVal(ref.TStruct, 0, genOpts{maxDepth: 2})
	tr := &loopTransport{srv: srv}
	cl := multiplex.NewClient(target, ienvelope.NewClient(binary.Default, tr))
	var got wire.Value
	var err error
	func() {
		defer func() {
			if r := recover(); r != nil {
				err = fmt.Errorf("PANIC: %v", r)
				res.Failf("C12/panic", "envelope client/server panicked: %v", r)
			}
		}()
		got, err = cl.Send(method, refwire.ToWire(body))
	}()
	logf("client Send(%q on service %q): err=%v", method, target, err)
	h.Str(fmt.Sprint(err))
	if len(tr.requests) != 1 {
		res.Failf("C12/env-client", "the client sent %d requests for one Send", len(tr.requests))
		return
	}
	req, n, derr := ref.DecodeEnvelope(tr.requests[0])
	if derr != nil || n != len(tr.requests[0]) {
		res.Failf("C12/env-client", "the client's request is not one envelope: %v", derr)
		return
	}
	if req.Name != target+":"+method || req.Type != ref.Call {
		res.Failf("C12/env-client", "request envelope carries name %q type %d, want %q and Call", req.Name, req.Type, target+":"+method)
	}
	if !bytes.Equal(ref.Encode(nil, req.Body), ref.Encode(nil, body)) {
		res.Failf("C12/env-client", "request body %s differs from what was sent %s", req.Body, body)
	}
	hd, known := handlers[target]
	if tr.clobbered {
		res.Failf("C12/env-server", "Handle changed the bytes of the request it was given")
	}
	if known && hd.echo && hd.mode == 0 {
		hd.reply = ref.Struct(ref.F(1, ref.Str("echoed")), ref.F(2, body))
		hd.gotBody = body
	}
	if len(tr.replies) == 1 {
		rep, n, derr := ref.DecodeEnvelope(tr.replies[0])
		if derr != nil || n != len(tr.replies[0]) {
			res.Failf("C12/env-server", "the server's reply is not one envelope: %v", derr)
			return
		}
		if rep.Name != req.Name || rep.SeqID != req.SeqID {
			res.Failf("C12/env-server-echo", "reply carries name %q seqid %d, request had %q %d", rep.Name, rep.SeqID, req.Name, req.SeqID)
		}
		wantExc := !known || hd.mode != 0
		if wantExc != (rep.Type == ref.Exception) || (!wantExc && rep.Type != ref.Reply) {
			res.Failf("C12/env-server-type", "reply envelope type %d (known service=%v handler mode=%v)", rep.Type, known, known && hd.mode != 0)
		}
		if rep.Type == ref.Exception {
			kind, _ := rep.Body.Get(2)
			wantKind := int64(6) // INTERNAL_ERROR
			if !known || hd.mode == 2 {
				wantKind = 1 // UNKNOWN_METHOD
			}
			if kind.I != wantKind {
				res.Failf("C12/env-exception-kind", "exception type %d, want %d (known service=%v)", kind.I, wantKind, known)
			}
		}
	}
	if known {
		if hd.calls != 1 {
			res.Failf("C12/env-dispatch", "handler of %q was called %d times", target, hd.calls)
		} else {
			if hd.gotName != method {
				res.Failf("C12/env-dispatch", "handler received method %q, the client called %q", hd.gotName, method)
			}
			if !bytes.Equal(ref.Encode(nil, hd.gotBody), ref.Encode(nil, body)) {
				res.Failf("C12/env-dispatch", "handler received body %s, the client sent %s", hd.gotBody, body)
			}
		}
	}
	for name, o := range handlers {
		if name != target && o.calls != 0 {
			res.Failf("C12/env-dispatch", "handler of %q was called for a request to %q", name, target)
		}
	}
	if known && hd.mode == 0 {
		if err != nil {
			res.Failf("C12/env-client", "Send failed although the handler replied: %v", err)
		} else if gv, ferr := refwire.Force(got); ferr != nil || !bytes.Equal(ref.Encode(nil, gv), ref.Encode(nil, hd.reply)) {
			res.Failf("C12/env-client", "Send returned %s, the handler replied %s", gv, hd.reply)
		}
	} else {
		var texc *exception.TApplicationException
		if err == nil {
			res.Failf("C12/env-client", "Send succeeded although the server answered with an exception")
		} else if !errors.As(err, &texc) {
			res.Failf("C12/env-client", "Send returned %T (%v), want a TApplicationException", err, err)
		} else if known && hd.mode == 1 && !strings.Contains(texc.GetMessage(), hd.errorMsg) {
			res.Failf("C12/env-client", "the exception message %q lost the handler's error %q", texc.GetMessage(), hd.errorMsg)
		}
	}
	// --- directly: arbitrary name and sequence id, both envelope encodings
	raw := genRequest()
	if raw.F == frBare {
		raw.F = frLegacy
	}
	raw.Type = ref.Call
	out, herr := srv.Handle(raw.encode())
	if herr != nil {
		res.Failf("C12/env-server", "Handle failed on a valid %s: %v", raw, herr)
		return
	}
	// an answer stays what it was while later requests are handled (answers collected first and
	// written out afterwards)
	for i := range tr.handed {
		if !bytes.Equal(tr.handed[i], tr.replies[i]) {
			res.Failf("C12/env-server", "the bytes of an earlier answer changed when a later request was handled")
		}
	}
	rep, n, derr := ref.DecodeEnvelope(out)
	if derr != nil || n != len(out) {
		res.Failf("C12/env-server", "reply to %s is not one envelope: %v", raw, derr)
		return
	}
	if rep.Name != raw.Name || rep.SeqID != raw.SeqID {
		res.Failf("C12/env-server-echo", "reply carries name %q seqid %d, request had %q %d", first(rep.Name, 30), rep.SeqID, first(raw.Name, 30), raw.SeqID)
	}
	if rep.Type != ref.Exception && rep.Type != ref.Reply {
		res.Failf("C12/env-server-type", "reply envelope type %d", rep.Type)
	}
	res.Count("c12.envserver-exchanges", 2)
	_ = simrt.Active
}
