// Field shapes that neither the repository's test schemas nor the seeded random
// programs produce often enough: floating-point, boolean and byte keys, typedef'd
// scalars in key position, required containers of every kind, binary in containers.

typedef double Weight
typedef binary Blob
typedef i8 Tiny

enum Level { LOW = 1, MID = 5, HIGH = 9 }

struct Sample {
  1: optional double value
  2: optional string unit
}

struct DoubleKeys {
  1: optional map<double, string> labels
  2: optional map<double, Sample> samples
  3: optional map<double, i64> counts
  4: optional set<double> points
  5: optional map<Weight, list<double>> series
  6: required map<double, bool> flags
}

struct OddKeys {
  1: optional map<bool, string> byBool
  2: optional map<byte, i16> byByte
  3: optional map<Tiny, Level> byTiny
  4: optional set<bool> bools
  5: optional set<Level> levels
  6: optional map<Level, Sample> byLevel
  7: optional map<i16, set<i64>> nested
}

struct Binaries {
  1: required binary raw
  2: optional Blob blob
  3: optional list<binary> chunks
  4: optional set<binary> unique
  5: optional map<string, binary> named
  6: optional map<binary, i32> sized
  7: required list<Blob> blobs
}

struct RequiredContainers {
  1: required list<i32> ints
  2: required set<string> names
  3: required map<string, double> weights
  4: required list<Sample> samples
  5: required map<i32, list<string>> groups
  6: required Level level
  7: required Sample sample
  8: required bool flag
  9: required byte tiny
}

union Choice {
  1: double d
  2: map<double, string> m
  3: set<binary> s
  4: Sample sample
  5: Level level
}

exception Failure {
  1: required string why
  2: optional map<double, double> curve
}

service Lab {
  map<double, Sample> measure(1: set<double> at, 2: Choice how) throws (1: Failure failure)
  oneway void note(1: binary text)
}

// Declaration order is not identifier order.
struct OutOfOrder {
  7: optional i32 seventh
  2: optional string second
  9: required i64 ninth
  1: optional list<i32> first
  4: optional Choice fourth
}

struct HighestFirst {
  30: required string thirty
  20: optional double twenty
  10: optional set<string> ten
}

union OddOrder {
  5: i32 five
  3: string three
  8: list<bool> eight
  1: binary one
}
