#!/usr/bin/env python3
"""Regenerates /verif/MANIFEST.json. Edit CLAIMED below when a check is registered."""
import json

NA = {
 "C01":"Pure function of (program, value): no schedule, clock, I/O fault or interleaving can change the outcome; it needs an independent codec over generated programs, not a simulator.",
 "C02":"Pure function of the wire value (whole-buffer comparison of the two codecs); nothing a simulator controls can change the outcome.",
 "C05":"Pure function of (writer schema, reader schema, value); no schedule, fault or interleaving in it.",
 "C06":"Pure function of (program, options), decided by compiling the generated output; not a simulation target.",
 "C08":"Termination/no-panic of a pure function of the input files; no schedule or fault involved.",
 "C09":"Pure function of the source text (numeric boundaries).",
 "C11":"Pure function of the document.",
 "C13":"A resource bound that is a pure function of the input bytes; Go offers no allocator seam, so failing allocations cannot be injected, and measuring allocation is observation, not simulation.",
 "C14":"Algebraic laws over pairs/triples of values; no schedule or fault involved.",
 "C15":"Pure function of (program, value).",
 "C19":"Pure function of (program, options).",
}
PENDING_REASON = "claimed in DESIGN.md (decided by simulation) but its check is not registered yet in this commit; listed here only until it is"
ALL_CLAIMED = ["C03","C04","C07","C10","C12","C16","C17","C18","C20"]

TRUST = "Trusted: the simulator stubs (fidelity rules in DESIGN.md §2.3), the seam rewriter (its report of unseamed sites is in the evidence), the harness's own reference codec/models. Sampling, not proof."

CLAIMED = {
 "C18": dict(engine="wire-world", cat="exploration",
   text="Caller goroutines as simulated tasks under a seeded single-baton scheduler (random walk, PCT-style priorities, run-to-completion; statement-level preemption in the small concurrent packages), with sync.Pool/Mutex/WaitGroup behind simulated primitives: (codec) concurrent codec operations incl. generated-code paths compared with the same operation run alone, with pool-discipline detectors (double Put, write after Put) and seeded pool reuse; (frame) concurrent Sends on one framed client against a server task over simulated pipes, own-payload check and linearizability of the recorded history (porcupine) against a counter model, also with the server exiting mid-run; (fanout) MultiServiceGenerator / MultiHandle / concurrent.Range with yielding, colliding and failing members. Thorough adds a race tier: the same runs in a -race build where the baton hand-off is invisible to the race detector, so a data race is reported deterministically for its seed.",
   ref="DESIGN.md §4 C18", note=TRUST+" Without the race tier, a missing lock around seam-free code shows only through its effects at statement granularity; 'no data race' proper is decided by the race tier (thorough). porcupine timeouts are inconclusive, never reported.",
   tech="deterministic simulation of goroutine interleavings (seeded scheduler over simulated sync primitives, pools and pipes), linearizability checking, deterministic race detection"),
 "C20": dict(engine="order-world", cat="exploration",
   text="Seeded (base program, edit script) pairs committed as HEAD~ and HEAD of a scratch git repository (merge commits, dirty or linked work trees, submodule entries, executable files, several ways of naming the repository); cmd/thriftbreak's run() executed in readable and JSON mode under seeded map-iteration orders of the comparison and the compiler; oracles: the reported set equals an executable reference model of the five documented breaking rules (fields matched by id, declared type names compared as written), each diagnostic attributed to the changed file, error exactly when something is reported, nothing for identical or compatible versions, same set across schedules and output modes; the same command line through main() (log.Fatalf and os.Exit seamed) ends with a non-zero exit status exactly when the pair has a documented breaking change, including pairs with exactly 256 or 512 diagnostics.",
   ref="DESIGN.md §4 C20", note=TRUST+" The reference model progen.Breaking is trusted; renames are not generated; HEAD always compiles; a reported line is matched by file and leading quoted names, not wording.",
   tech="deterministic simulation of map-iteration order over the real linter on real two-commit git histories; reference model as oracle"),
 "C10": dict(engine="order-world", cat="exploration",
   text="Seeded (program, option set) pairs compiled and generated repeatedly into fresh or deliberately stale directories (also through the real command line), each time under another seeded map-iteration order at every range-over-map site of the compiler and the generator (plus reflect MapKeys), with an in-process capturing service generator; oracles: same success/failure, same set of output paths, same sha256 of every file, same plugin request up to the numbering of module and service ids; a fixed program generated before and after every program of a worker process comes out the same every time (no state survives from one generation to the next).",
   ref="DESIGN.md §4 C10", note=TRUST+" Map iteration inside third-party code is not seamed (text/template sorts keys). Cross-process determinism is argued through the seam: map order is the generator's only per-process nondeterminism (no clock, randomness or goroutines in compile/ and gen/; see the seam report in the evidence).",
   tech="deterministic simulation of map-iteration order (seeded permutations at every range-over-map site), cross-schedule comparison of output hashes"),
 "C07": dict(engine="order-world", cat="exploration",
   text="Seeded multi-file programs (typedef chains also through structs and back, diamond and cyclic includes, dotted local names, same names in several files, constants and defaults referring to constants and enum items, services extending across files, some deliberately invalid) compiled under seeded schedules of the linker's resolution order (every range-over-map of the compiler behind a permutation seam: sorted, reverse, random, rotated, one-key-first) and of the definition order inside each file; oracles: identical outcome and identical canonical module-graph dump across all schedules, equality with an executable reference model of Thrift scoping and constant casting over the abstract program, one Module object per file, no nil typedef root or unresolved node.",
   ref="DESIGN.md §4 C07", note=TRUST+" The reference model (progen/model.go) is trusted for the generated sub-language; ambiguous programs are not generated; constant references are type-compatible by construction.",
   tech="deterministic simulation of the linker's resolution order (seeded map-iteration and definition orders) with a reference model as oracle"),
 "C04": dict(engine="wire-world", cat="exploration",
   text="Seeded runs over every struct-like type of the schema corpus regenerated from the tree's own templates: byte strings (encodings of valid reflected Go values, schema-evolution edits, byte-level mutations) decoded through FromWire(Decode) and through T.Decode over a simulated reader under seeded delivery schedules, peer death and I/O errors, also after earlier (possibly rejected) decodes in the same process and into receivers that already hold a message; Go values (valid and damaged) serialized through both serializers; oracles: equal values whenever both accept, value-based acceptance implies streaming acceptance, independence from segmentation and seekability, faults inside the struct never accepted, serializers fail together or produce encodings that decode to equal values.",
   ref="DESIGN.md §4 C04", note=TRUST+" Container counts above 32768 in mutated inputs are capped by the harness (C13's territory). Nothing is asserted about which inputs must be rejected.",
   tech="deterministic simulation of the caller-supplied reader/writer (seeded delivery schedules and fault injection) over regenerated code; differential oracle between the two paths"),
 "C12": dict(engine="wire-world", cat="exploration",
   text="Seeded simulated exchanges: envelopes round-tripped through the value-based and streaming codecs and compared byte for byte with an independent encoder; a client and a server exchanging requests in the three framings through DecodeRequest or ReadRequest, over simulated readers and over a live simulated pipe written in seeded chunks by a client task, with the reply decoded by an independent client of that framing; and agreement of the two request APIs on arbitrary bytes under seeded delivery schedules, peer death and I/O errors.",
   ref="DESIGN.md §4 C12", note=TRUST+" Legacy names stay below 2^24 bytes; a stream that ends early is judged as the shorter input it is; nothing is demanded when an injected I/O error hits the two-byte framing peek.",
   tech="deterministic simulation of transport and peer (seeded segmentation, live pipe between client and server tasks, fault injection), reference codec as oracle"),
 "C03": dict(engine="wire-world", cat="exploration",
   text="Seeded search over (wire type, byte string) inputs, each decoded by the random-access reader with all lazy containers forced and then re-decoded and skipped under seeded delivery schedules of a simulated reader (segmentation incl. 1-byte and zero-length reads, EOF delivered with data, seekable or not) and injected faults (peer death at an offset, I/O error at an offset, alone or together with the bytes before it; seekers whose Seek fails or whose end is still growing), also from sources the caller owns (a bytes.Buffer refilled after the read, a bytes.Reader whose own cursor stands elsewhere) and after earlier decodes in the same process; invariants: no panic, bounded reader calls, canonical re-encoding by an independent encoder and by the library, skip/decode length agreement, delivery independence, faults inside the value are never accepted.",
   ref="DESIGN.md §4 C03", note=TRUST+" The call budget 1024*len+65536 stands for termination; nothing is required of Skip on a seekable reader that was cut short.",
   tech="deterministic simulation of the caller-supplied reader (seeded delivery schedules and fault injection), reference encoder as oracle"),
 "C16": dict(engine="plugin-world", cat="fault_enumeration",
   text="Systematic enumeration of every protocol step x reply action x truncation offset for one plugin (whole and 1-byte writes), plus seeded search over 0-3 concurrent plugins with independent fault scripts, interleavings, chunkings, options and frame fast-path thresholds; oracles over the recorded per-plugin history (gate, goodbye exactly once, cleanup/reaping, exit status iff failure and naming the plugin, frames intact: every plugin sees the same request, equal to an in-process reference run's, liveness in steps); a run kind in which the harness is the scripted host talking raw frames to the real plugin.Main. The floor is exhaustive for one plugin; everything beyond is sampled. Thorough additionally cross-checks the simulator's stubs against real os/exec, OS pipes and processes (3000 scenarios) and repeats runs in a -race build with a baton the detector cannot see.",
   ref="DESIGN.md §4 C16", note=TRUST+" Plugins always terminate; pipes are reliable; API_VERSION and method names come from plugin/api.thrift; no disk faults.",
   tech="deterministic simulation with scripted fault injection (seeded scheduler, simulated pipes/processes, history oracles)"),
 "C17": dict(engine="plugin-world", cat="exploration",
   text="Seeded simulated runs of the real CLI against 0-3 simulated plugins whose generate replies carry file paths of 12 shapes, over random multi-file programs, thrift-root layouts, options and failing modules, with C16's fault catalogue on every protocol step; the oracle compares sha256 snapshots of the whole sandbox before and after (confinement, conflicts reported, output untouched on every listed failure, exact file set on success).",
   ref="DESIGN.md §4 C17", note=TRUST+" No disk faults; failures that arise only while closing plugins after a successful generation are outside the property's list.",
   tech="deterministic simulation with fault injection; file-system snapshot oracle"),
}

checks = []
for pid in sorted(CLAIMED):
    c = CLAIMED[pid]
    checks.append({
      "property_id": pid,
      "quick_cmd": f"bin/check {pid} quick",
      "thorough_cmd": f"bin/check {pid} thorough",
      "evidence_file": f"evidence/{pid}.json",
      "replay_cmd_template": f"bin/check {pid} --replay {{path}}",
      "engine": c["engine"],
      "level_claimed": {"category": c["cat"], "text": c["text"], "design_ref": c["ref"]},
      "level_note": c["note"],
      "technique": c["tech"],
    })
na = dict(NA)
for pid in ALL_CLAIMED:
    if pid not in CLAIMED:
        na[pid] = PENDING_REASON
m = {
 "version": 1,
 "setup_cmd": "bin/setup",
 "hooks": {
   "guard": "verifsim",
   "enable": "no hook is committed to /repo: every check copies /repo's working tree to /var/tmp/verif-scratch, applies the type-driven seam rewriter (verif/seam) and overlays the harness (verif/overlay, build tag verifsim) before compiling the worker",
   "baseline_off_cmd": "cd /repo && go test -mod=mod -vet=off -count=1 -timeout 25m ./...",
   "source_commits": [],
   "add_only": True,
 },
 "engines": [
   {"name":"plugin-world","path":"overlay/internal/zzsim/world/pluginw","serves_properties":["C16","C17","C18"],"kind_free_text":"deterministic simulation: real CLI host + simulated plugin processes over simulated pipes, seeded scheduler, scripted faults"},
   {"name":"wire-world","path":"overlay/internal/zzsim/world/wirew","serves_properties":["C03","C04","C12","C18"],"kind_free_text":"deterministic simulation: codec entry points fed by simulated readers/writers/peers (segmentation, EOF placement, truncation, I/O errors), seeded caller tasks over simulated pools"},
   {"name":"order-world","path":"overlay/internal/zzsim/world/orderw","serves_properties":["C07","C10","C20"],"kind_free_text":"deterministic simulation of resolution/iteration order: every map range behind a seeded permutation seam; reference models"},
 ],
 "checks": checks,
 "not_applicable": [{"property_id":k,"reason":v} for k,v in sorted(na.items())],
 "notes": "See DESIGN.md. bin/check <id> quick|thorough; VERIF_SEED selects the seed (default 1). bin/check <id> --replay <file> replays a violation. Genuine defects repaired in /repo are listed in known_findings.json as fixed.",
}
json.dump(m, open('/verif/MANIFEST.json','w'), indent=1)
print("claimed:", sorted(CLAIMED), "pending:", [p for p in ALL_CLAIMED if p not in CLAIMED])
