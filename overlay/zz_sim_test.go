//go:build verifsim

package main

import (
	"os"
	"testing"

	"go.uber.org/thriftrw/internal/zzsim/zzmain"
)

// TestMain turns the test binary of package main into the simulation worker:
// the harness needs the unexported do().
func TestMain(m *testing.M) {
	if job := os.Getenv("VSIM_REAL_PLUGIN"); job != "" {
		// stub-fidelity cross-check: this process is a real plugin
		os.Exit(zzmain.RealPlugin(job))
	}
	if os.Getenv("VSIM_WORKER") != "" {
		zzmain.HostMain = do
		zzmain.Init()
		os.Exit(zzmain.Main())
	}
	os.Exit(m.Run())
}
