package orderw

import (
	"bufio"
	"encoding/json"
	"fmt"
	"os"
	"path"
	"path/filepath"
	"runtime/debug"
	"sort"
	"strings"
	"time"

	"github.com/go-git/go-git/v5"
	"github.com/go-git/go-git/v5/plumbing"
	"github.com/go-git/go-git/v5/plumbing/filemode"
	"github.com/go-git/go-git/v5/plumbing/object"

	"go.uber.org/thriftrw/internal/zzsim/progen"
	"go.uber.org/thriftrw/internal/zzsim/simlog"
	"go.uber.org/thriftrw/internal/zzsim/simrt"
	"go.uber.org/thriftrw/internal/zzsim/world"
)

// TBRun is cmd/thriftbreak's run (set by that package's TestMain).
var TBRun func(args []string) error

// TBMain is cmd/thriftbreak's main (set by that package's TestMain): what a shell sees of the
// tool is main's exit status, not run's error.
var TBMain func()

type reported struct {
	File    string
	Message string
	used    bool
}

func parseText(out string) []*reported {
	var rs []*reported
	sc := bufio.NewScanner(strings.NewReader(out))
	sc.Buffer(make([]byte, 1<<20), 1<<20)
	for sc.Scan() {
		line := sc.Text()
		if strings.TrimSpace(line) == "" {
			continue
		}
		i := strings.Index(line, ":")
		r := &reported{File: line, Message: ""}
		if i >= 0 {
			r.File, r.Message = line[:i], line[i+1:]
		}
		rs = append(rs, r)
	}
	return rs
}

func parseJSON(out string) ([]*reported, error) {
	var rs []*reported
	dec := json.NewDecoder(strings.NewReader(out))
	for dec.More() {
		var d struct{ FilePath, Message string }
		if err := dec.Decode(&d); err != nil {
			return rs, err
		}
		rs = append(rs, &reported{File: d.FilePath, Message: d.Message})
	}
	return rs, nil
}

// tokens splits a message into identifier-like words (whatever the quoting).
func tokens(msg string) map[string]bool {
	out := map[string]bool{}
	cur := []rune{}
	flush := func() {
		if len(cur) > 0 {
			out[string(cur)] = true
			cur = cur[:0]
		}
	}
	for _, r := range msg {
		if r == '_' || r == '.' || (r >= '0' && r <= '9') || (r >= 'a' && r <= 'z') || (r >= 'A' && r <= 'Z') {
			cur = append(cur, r)
		} else {
			flush()
		}
	}
	flush()
	return out
}

// match pairs expected diagnostics with reported lines by maximum bipartite
// matching: a line can stand for an expected diagnostic if it is attributed to
// the expected file and mentions every expected name as a word. The wording and
// quoting of messages is not part of the property and is not looked at.
func match(exp []progen.Diag, rs []*reported) (missed []string, extra []string) {
	toks := make([]map[string]bool, len(rs))
	for i, r := range rs {
		toks[i] = tokens(r.Message)
		r.used = false
	}
	can := func(e progen.Diag, i int) bool {
		r := rs[i]
		if e.BaseOnly {
			if r.File != e.File && path.Base(r.File) != e.File {
				return false
			}
		} else if r.File != e.File {
			return false
		}
		for _, n := range e.Names {
			if !toks[i][n] {
				return false
			}
		}
		return true
	}
	owner := make([]int, len(rs)) // line -> expected index
	for i := range owner {
		owner[i] = -1
	}
	var try func(e int, seen []bool) bool
	try = func(e int, seen []bool) bool {
		for i := range rs {
			if seen[i] || !can(exp[e], i) {
				continue
			}
			seen[i] = true
			if owner[i] < 0 || try(owner[i], seen) {
				owner[i] = e
				return true
			}
		}
		return false
	}
	matched := make([]bool, len(exp))
	for e := range exp {
		if try(e, make([]bool, len(rs))) {
			matched[e] = true
		}
	}
	// owners may have been reassigned: recompute who is matched
	for e := range matched {
		matched[e] = false
	}
	for i, e := range owner {
		if e >= 0 {
			matched[e] = true
			rs[i].used = true
		}
	}
	for e, ok := range matched {
		if !ok {
			missed = append(missed, exp[e].String())
		}
	}
	for _, r := range rs {
		if !r.used {
			extra = append(extra, r.File+":"+r.Message)
		}
	}
	return
}

// subdirs lists the directories (relative, slash separated) that hold a Thrift file in both versions.
func subdirs(before, after *progen.Program) []string {
	in := func(p *progen.Program) map[string]bool {
		m := map[string]bool{}
		for _, f := range p.Files {
			if !f.Deleted && f.Dir != "" {
				m[f.Dir] = true
			}
		}
		return m
	}
	a, b := in(before), in(after)
	var out []string
	for d := range a {
		if b[d] {
			out = append(out, d)
		}
	}
	sort.Strings(out)
	return out
}

func commitAll(wt *git.Worktree, msg string, n int) error {
	_, err := commitWith(wt, msg, n, nil)
	return err
}

// commitWith commits the work tree at fixed time 1700000000+n, with the given parents
// (nil: the current HEAD).
func commitWith(wt *git.Worktree, msg string, n int, parents []plumbing.Hash) (plumbing.Hash, error) {
	if err := wt.AddWithOptions(&git.AddOptions{All: true}); err != nil {
		return plumbing.ZeroHash, err
	}
	sig := &object.Signature{Name: "sim", Email: "sim@example.com", When: time.Unix(1700000000+int64(n), 0).UTC()}
	return wt.Commit(msg, &git.CommitOptions{AllowEmptyCommits: true, Author: sig, Committer: sig, Parents: parents})
}

// decoys > 0: every second file (counted from decoys) is accompanied by <name>.thrift.orig and
// <name>.thrift.md, rewritten with every version.
var decoys, decoyVersion int

// execFiles > 0: every second file (counted from execFiles) is written with mode 0755.
var execFiles int

func writeVersion(dir string, p *progen.Program) error {
	want := map[string]bool{}
	for i, f := range p.Files {
		if f.Deleted {
			continue
		}
		rel := filepath.FromSlash(f.RelPath())
		want[rel] = true
		full := filepath.Join(dir, rel)
		if err := os.MkdirAll(filepath.Dir(full), 0755); err != nil {
			return err
		}
		// some files carry the executable bit (git then records mode 100755 for them)
		mode := os.FileMode(0644)
		if execFiles > 0 && (i+execFiles)%2 == 0 {
			mode = 0755
		}
		os.Remove(full)
		if err := os.WriteFile(full, []byte(p.Render(i)), mode); err != nil {
			return err
		}
		if decoys > 0 && (i+decoys)%2 == 0 {
			// files that only have ".thrift" somewhere in their names, changing with every version:
			// a backup copy of the file (valid Thrift, but not a Thrift file) and notes (not Thrift at all)
			decoyVersion++
			os.WriteFile(full+".orig", []byte(p.Render(i)+fmt.Sprintf("// copy %d\n", decoyVersion)), 0644)
			os.WriteFile(full+".md", []byte(fmt.Sprintf("# notes, revision %d: `struct {` is not closed here\n", decoyVersion)), 0644)
		}
	}
	// remove files that no longer exist
	return filepath.Walk(dir, func(pth string, info os.FileInfo, err error) error {
		if err != nil || info.IsDir() {
			if info != nil && info.IsDir() && info.Name() == ".git" {
				return filepath.SkipDir
			}
			return nil
		}
		rel, _ := filepath.Rel(dir, pth)
		if strings.HasSuffix(rel, ".thrift") && !want[rel] {
			return os.Remove(pth)
		}
		return nil
	})
}

type tbOutcome struct {
	err    error
	out    string
	panic  string
	parsed []*reported
	// the same command line through main(): exit status, output, a panic that is not an exit
	mainRan      bool
	mainStatus   int
	mainExplicit bool // main ended through os.Exit
	mainOut      string
	mainPanic    string
}

func runTB(args []string, capture string) (o tbOutcome) {
	f, err := os.Create(capture)
	if err != nil {
		panic(err)
	}
	saved := os.Stdout
	os.Stdout = f
	func() {
		defer func() {
			if r := recover(); r != nil {
				o.panic = fmt.Sprintf("%v\n%s", r, debug.Stack())
			}
		}()
		o.err = TBRun(args)
	}()
	os.Stdout = saved
	f.Close()
	data, _ := os.ReadFile(capture)
	o.out = string(data)
	if TBMain == nil || o.panic != "" {
		return o
	}
	// once more as a process would: os.Args, main(), log.Fatalf as the exit with status 1
	f, err = os.Create(capture)
	if err != nil {
		panic(err)
	}
	savedArgs := os.Args
	os.Args = append([]string{"thriftbreak"}, args...)
	os.Stdout = f
	simlog.CatchFatal = true
	simrt.CatchExit = true
	func() {
		defer func() {
			if r := recover(); r != nil {
				if _, ok := r.(simlog.FatalExit); ok {
					o.mainStatus = 1
					return
				}
				if e, ok := r.(simrt.ExitStatus); ok {
					// what the parent process sees of the status: its low eight bits
					o.mainStatus = e.Status & 0xff
					o.mainExplicit = true
					return
				}
				o.mainPanic = fmt.Sprintf("%v\n%s", r, debug.Stack())
			}
		}()
		TBMain()
	}()
	simlog.CatchFatal = false
	simrt.CatchExit = false
	os.Stdout = saved
	os.Args = savedArgs
	f.Close()
	data, _ = os.ReadFile(capture)
	o.mainOut = string(data)
	o.mainRan = true
	return o
}

// RunC20 is one C20 run: a base program, an edit script, two commits, the
// linter under N map-order schedules in both output modes.
func RunC20(cfg simrt.Config, o world.Opts) *world.Result {
	res := &world.Result{}
	if o.Trace {
		cfg.KeepLabels = true
	}
	cfg.StepCap = 1 << 40
	s := simrt.New(cfg)
	var lines []string
	logf := func(f string, a ...interface{}) {
		if o.Trace {
			lines = append(lines, fmt.Sprintf(f, a...))
		}
	}
	h := world.NewHasher()
	base := o.TmpDir
	if base == "" {
		base = os.TempDir()
	}
	wdir := filepath.Join(base, fmt.Sprintf("w%d", o.Worker))
	repo := filepath.Join(wdir, "repo")
	capture := filepath.Join(wdir, "stdout.txt")
	if TBRun == nil {
		res.Failf("C20/harness", "thriftbreak's run() is not wired in (wrong worker binary)")
		return res
	}
	s.Inline(func() {
		// directory names that begin with two dots are ordinary names
		before := progen.Gen(progen.Options{MaxFiles: 3, MaxDefs: 5, WantService: true, Unions: true, Exceptions: true, Defaults: true, Consts: true,
			ExtraDirs: []string{"..arch", "..arch/v1", "50%done", "my%20idl/%s"}})
		// a twin: the same content under the same base name in another directory, edited
		// the same way (two files then yield textually identical diagnostics)
		twinOf, twin := -1, -1
		if simrt.Flip("c20.twin", 0.25) {
			twinOf = ch("c20.twin-of", len(before.Files))
			dir := "tw"
			if d := before.Files[twinOf].Dir; d != "" && ch("c20.twin-dir", 2) == 1 {
				dir = d + "/tw"
			}
			twin = before.AddTwin(twinOf, dir)
			res.Count("c20.twin-files", 1)
		}
		// a pair with exactly 256 or 512 diagnostics and nothing else: a count that a process exit
		// status cannot carry (the status a parent sees is the low eight bits)
		wide := ""
		if twin < 0 && simrt.Flip("c20.wide", 0.01) {
			wide = before.AddWideStruct(256 * (1 + ch("c20.wide-n", 2)))
			res.Count("c20.pairs-with-a-multiple-of-256-diagnostics", 1)
		}
		after := before.Clone()
		if twin >= 0 {
			after.Files[twin].Deleted = true // out of the edits' reach; re-made from its original below
		}
		var script []*progen.Edit
		n := ch("edits.n", 6) // number of edits wanted (0 = identical versions)
		if wide != "" {
			n = 0
			k := after.RequireAll(wide)
			script = append(script, &progen.Edit{Kind: "optional-to-required", Breaking: true, What: fmt.Sprintf("all %d fields of %s", k, wide)})
		}
		hasAdd, hasDel := false, false
		for i := 0; i < 3*n && len(script) < n; i++ {
			snap := after.Clone()
			e := after.ApplyEdit(hasAdd, hasDel)
			if e == nil {
				after = snap
				continue
			}
			if _, err := after.Dump(); err != nil {
				after = snap // the edit would leave HEAD uncompilable: not part of the property
				res.Count("c20.edits-rolled-back", 1)
				continue
			}
			if e.Kind == "add-file" {
				hasAdd = true
			}
			if e.Kind == "delete-file" {
				hasDel = true
			}
			script = append(script, e)
			res.Count("c20.edit."+e.Kind, 1)
		}
		if twin >= 0 {
			after.SyncTwin(twinOf, twin)
			if _, err := after.Dump(); err != nil {
				panic("twin does not compile: " + err.Error())
			}
		}
		expected := progen.Breaking(before, after)
		if o.Trace {
			for _, l := range strings.Split(before.Describe(), "\n") {
				logf("  HEAD~ | %s", l)
			}
			for _, e := range script {
				logf("edit: %s (%s) breaking=%v", e.Kind, e.What, e.Breaking)
			}
			for _, l := range strings.Split(after.Describe(), "\n") {
				logf("  HEAD  | %s", l)
			}
			for _, e := range expected {
				logf("expected diagnostic: %s", e)
			}
		}
		decoys, decoyVersion = 0, 0
		if simrt.Flip("c20.decoy-files", 0.15) {
			decoys = 1 + ch("c20.decoy-which", 2)
			res.Count("c20.repositories-with-decoy-files", 1)
		}
		execFiles = 0
		if simrt.Flip("c20.executable-files", 0.15) {
			execFiles = 1 + ch("c20.executable-which", 2)
			res.Count("c20.repositories-with-executable-thrift-files", 1)
		}
		// scratch repository
		os.RemoveAll(repo)
		os.MkdirAll(repo, 0755)
		r, err := git.PlainInit(repo, false)
		if err != nil {
			panic(err)
		}
		wt, err := r.Worktree()
		if err != nil {
			panic(err)
		}
		if err := writeVersion(repo, before); err != nil {
			panic(err)
		}
		first, err := commitWith(wt, "before", 0, nil)
		if err != nil {
			panic(err)
		}
		var parents []plumbing.Hash
		if simrt.Flip("c20.merge-commit", 0.15) {
			// HEAD is a merge: its first parent is the previous version, its second parent a side
			// branch committed later than the first parent. HEAD~ is still the first parent.
			side := after
			if ch("c20.side-branch", 2) == 1 {
				side = before.Clone()
				for i := 0; i < 6; i++ {
					if e := side.ApplyEdit(true, true); e != nil {
						break
					}
				}
				if _, err := side.Dump(); err != nil {
					side = after
				}
			}
			if err := writeVersion(repo, side); err != nil {
				panic(err)
			}
			second, err := commitWith(wt, "side branch", 5, []plumbing.Hash{first})
			if err != nil {
				panic(err)
			}
			parents = []plumbing.Hash{first, second}
			res.Count("c20.merge-commits", 1)
			logf("HEAD is a merge commit (first parent: the previous version; second parent: a side branch committed later)")
		}
		if err := writeVersion(repo, after); err != nil {
			panic(err)
		}
		head, err := commitWith(wt, "after", 9, parents)
		if err != nil {
			panic(err)
		}
		if simrt.Flip("c20.submodule", 0.1) {
			// the repository vendors something as a submodule: its trees carry a gitlink entry
			// (mode 160000), which is not a file; HEAD may move the pointer, drop it or keep it
			link := func(c plumbing.Hash, target string, parents []plumbing.Hash) plumbing.Hash {
				commit, err := r.CommitObject(c)
				if err != nil {
					panic(err)
				}
				tree, err := commit.Tree()
				if err != nil {
					panic(err)
				}
				entries := append([]object.TreeEntry{}, tree.Entries...)
				if target != "" {
					// the name sorts behind every other entry of the root tree
					entries = append(entries, object.TreeEntry{Name: "zz-vendored", Mode: filemode.Submodule, Hash: plumbing.NewHash(target)})
				}
				to := r.Storer.NewEncodedObject()
				if err := (&object.Tree{Entries: entries}).Encode(to); err != nil {
					panic(err)
				}
				th, err := r.Storer.SetEncodedObject(to)
				if err != nil {
					panic(err)
				}
				if parents == nil {
					parents = commit.ParentHashes
				}
				co := r.Storer.NewEncodedObject()
				nc := &object.Commit{Author: commit.Author, Committer: commit.Committer, Message: commit.Message, TreeHash: th, ParentHashes: parents}
				if err := nc.Encode(co); err != nil {
					panic(err)
				}
				h, err := r.Storer.SetEncodedObject(co)
				if err != nil {
					panic(err)
				}
				return h
			}
			const at1, at2 = "1111111111111111111111111111111111111111", "2222222222222222222222222222222222222222"
			now := []string{at2, "", at1}[ch("c20.submodule-in-head", 3)]
			first2 := link(first, at1, []plumbing.Hash{})
			ps := []plumbing.Hash{first2}
			if len(parents) == 2 {
				ps = append(ps, link(parents[1], at1, []plumbing.Hash{first2}))
			}
			head = link(head, now, ps)
			ref, err := r.Head()
			if err != nil {
				panic(err)
			}
			if err := r.Storer.SetReference(plumbing.NewHashReference(ref.Name(), head)); err != nil {
				panic(err)
			}
			logf("the trees carry a submodule entry; in HEAD it is %q (before: %q)", now, at1)
			res.Count("c20.repositories-with-a-submodule", 1)
		}
		// the directory the tool is pointed at: the repository's own work tree, or a linked one
		// (`git worktree add`: a `.git` FILE naming an administrative directory below the main
		// repository's .git, which holds HEAD and the way back to the common directory)
		target := repo
		linked := filepath.Join(wdir, "linked")
		os.RemoveAll(linked)
		if simrt.Flip("c20.linked-worktree", 0.12) {
			admin := filepath.Join(repo, ".git", "worktrees", "linked")
			headLine := head.String()
			if ch("c20.linked-head", 2) == 1 {
				if ref, err := r.Head(); err == nil && ref.Name().IsBranch() {
					headLine = "ref: " + ref.Name().String()
				}
			}
			for _, d := range []string{admin, linked} {
				if err := os.MkdirAll(d, 0755); err != nil {
					panic(err)
				}
			}
			for name, content := range map[string]string{
				filepath.Join(admin, "HEAD"):      headLine + "\n",
				filepath.Join(admin, "commondir"): "../..\n",
				filepath.Join(admin, "gitdir"):    filepath.Join(linked, ".git") + "\n",
				filepath.Join(linked, ".git"):     "gitdir: " + admin + "\n",
			} {
				if err := os.WriteFile(name, []byte(content), 0644); err != nil {
					panic(err)
				}
			}
			if err := writeVersion(linked, after); err != nil {
				panic(err)
			}
			target = linked
			defer os.RemoveAll(linked)
			logf("the tool is pointed at a linked work tree of the repository (HEAD there: %s)", headLine)
			res.Count("c20.linked-worktrees", 1)
		}
		// The verdict is about the two committed versions. Afterwards the work tree may hold
		// anything: the previous version again, no Thrift files at all, or a further edit.
		if simrt.Flip("c20.dirty-worktree", 0.25) {
			mode := ch("c20.dirty-mode", 3)
			switch mode {
			case 0:
				if err := writeVersion(repo, before); err != nil {
					panic(err)
				}
			case 1:
				empty := after.Clone()
				for i := range empty.Files {
					empty.Files[i].Deleted = true
				}
				if err := writeVersion(repo, empty); err != nil {
					panic(err)
				}
			default:
				further := after.Clone()
				for i := 0; i < 6; i++ {
					if e := further.ApplyEdit(true, true); e != nil {
						break
					}
				}
				if err := writeVersion(repo, further); err != nil {
					panic(err)
				}
			}
			logf("work tree left dirty after the second commit (mode %d)", mode)
			res.Count(fmt.Sprintf("c20.dirty-worktree.mode%d", mode), 1)
		}
		res.Nontrivial = true
		if len(expected) > 0 {
			res.Count("c20.pairs-with-breaking-changes", 1)
		} else if len(script) > 0 {
			res.Count("c20.pairs-compatible", 1)
		} else {
			res.Count("c20.pairs-identical", 1)
		}
		N := 4
		if o.Tier == "thorough" {
			N = 12
		}
		for i := 0; i < N; i++ {
			var mo simrt.MapOrder
			switch i {
			case 0:
				mo = simrt.MapSorted
			case 1:
				mo = simrt.MapReverse
			default:
				mo = simrt.MapOrder(2 + ch("order.policy", 3))
			}
			s.SetMapOrder(mo)
			jsonMode := i%2 == 1
			// how the repository is named: absolute path, relative path from its parent, or not
			// at all (the tool then takes the current directory)
			args := []string{"-C", target}
			cwd := ""
			goneCwd := ""
			switch ch("c20.repo-arg", 5) {
			case 4:
				// an absolute -C while the process's own working directory no longer exists
				goneCwd = filepath.Join(wdir, "gone")
				os.MkdirAll(goneCwd, 0755)
				cwd = goneCwd
			case 1:
				cwd, args = filepath.Dir(target), []string{"-C", filepath.Base(target)}
			case 2:
				cwd, args = target, nil
			case 3:
				cwd, args = target, []string{"-C", "."}
			}
			// ... or by one of its sub-directories (the repository is found from there; paths in
			// diagnostics stay relative to the repository)
			if sub := subdirs(before, after); len(sub) > 0 && simrt.Flip("c20.repo-subdir", 0.15) {
				d := sub[ch("c20.repo-subdir-pick", len(sub))]
				cwd, args = "", []string{"-C", filepath.Join(target, filepath.FromSlash(d))}
				logf("repository named by its sub-directory %s", d)
				res.Count("c20.repository-named-by-a-subdirectory", 1)
			}
			if jsonMode {
				args = append(args, "-json")
			}
			saved, _ := os.Getwd()
			if cwd != "" {
				if err := os.Chdir(cwd); err != nil {
					panic(err)
				}
			}
			if goneCwd != "" && cwd == goneCwd {
				os.Remove(goneCwd)
			}
			got := runTB(args, capture)
			if cwd != "" {
				os.Chdir(saved)
			}
			desc := fmt.Sprintf("schedule %d (map order %s, json=%v)", i, orderNames[mo], jsonMode)
			logf("%s: error=%v output=%q", desc, got.err, first80(got.out))
			h.Str(fmt.Sprint(got.err != nil))
			if got.panic != "" {
				res.Failf("C20/panic", "%s: thriftbreak panicked: %s", desc, first80(got.panic))
				return
			}
			var perr error
			if jsonMode {
				got.parsed, perr = parseJSON(got.out)
				if perr != nil {
					res.Failf("C20/json-output", "%s: output is not a list of JSON objects: %v: %q", desc, perr, first80(got.out))
					return
				}
			} else {
				got.parsed = parseText(got.out)
			}
			var keys []string
			for _, p := range got.parsed {
				keys = append(keys, p.File+":"+p.Message)
			}
			sort.Strings(keys)
			h.Str(strings.Join(keys, "\n"))
			if got.err != nil && len(got.parsed) == 0 {
				// the tool failed without diagnostics (e.g. a compile error): the
				// generator promised compilable versions, so this is worth a look,
				// but it is not one of the property's clauses
				res.Count("c20.tool-error-without-diagnostics", 1)
				if len(expected) > 0 {
					res.Failf("C20/missed-breaking-change", "%s: expected %v but the tool failed with: %s", desc, expected, first80(got.err.Error()))
				} else {
					// both versions compile (the model rolls back edits that would not) and nothing
					// breaking separates them: the tool exits non-zero exactly when it has a diagnostic
					res.Failf("C20/exit-status", "%s: nothing to report, but the tool failed with: %s", desc, first80(got.err.Error()))
				}
				return
			}
			missed, extra := match(expected, got.parsed)
			if len(missed) > 0 {
				res.Failf("C20/missed-breaking-change", "%s: not reported: %s (reported: %q)", desc, strings.Join(missed, "; "), first80(got.out))
			}
			if len(extra) > 0 {
				res.Failf("C20/false-positive", "%s: reported without a documented breaking change behind it: %s", desc, strings.Join(extra, "; "))
			}
			if (got.err != nil) != (len(got.parsed) > 0) {
				res.Failf("C20/exit-status", "%s: error=%v but %d diagnostics were printed", desc, got.err, len(got.parsed))
			}
			// what a caller of the executable sees: main()'s exit status for the same command line
			if got.mainRan {
				res.Count("c20.main-calls", 1)
				if got.mainStatus != 0 {
					res.Count("c20.main-exits-nonzero", 1)
				}
				if got.mainPanic != "" {
					res.Failf("C20/panic", "%s: thriftbreak's main() panicked: %s", desc, first80(got.mainPanic))
				} else if (got.mainStatus != 0) != (len(expected) > 0) {
					res.Failf("C20/exit-status", "%s: main() ended with exit status %d, the pair has %d documented breaking changes (run() returned error=%v)", desc, got.mainStatus, len(expected), got.err)
				}
			}
			if len(res.Failures) > 0 {
				return
			}
		}
	})
	os.RemoveAll(repo)
	res.FromSim(s)
	for _, c := range res.Choices {
		h.Int(int64(c))
	}
	res.Hash = h.Sum()
	k := world.NewHasher()
	for _, c := range res.Choices {
		k.Int(int64(c))
	}
	res.Key = k.Sum()
	if o.Trace {
		res.Trace = append(lines, world.TraceOf(s, "")...)
		res.Sample = lines
	}
	return res
}
