package pluginw

import (
	"fmt"
	"os"
	"path/filepath"
	"strings"

	"go.uber.org/thriftrw/compile"
	"go.uber.org/thriftrw/gen"
	"go.uber.org/thriftrw/internal/zzsim/ref"
	"go.uber.org/thriftrw/internal/zzsim/refwire"
	"go.uber.org/thriftrw/internal/zzsim/simrt"
	"go.uber.org/thriftrw/internal/zzsim/world"
	"go.uber.org/thriftrw/internal/zzsim/world/orderw"
	"go.uber.org/thriftrw/plugin/api"
)

type refCapture struct{ req *api.GenerateServiceRequest }

func (c *refCapture) Generate(r *api.GenerateServiceRequest) (*api.GenerateServiceResponse, error) {
	c.req = r
	return &api.GenerateServiceResponse{}, nil
}

// referenceRun generates the same program in-process, without any transport,
// into refOut and captures the request a plugin would be handed.
func prefixOf(sc *Scenario) string {
	if sc.PkgPrefix != "" {
		return sc.PkgPrefix
	}
	return "example.com/gen"
}

func referenceRun(sc *Scenario, env *Env, refOut string) (req *api.GenerateServiceRequest, files map[string]string, err error) {
	defer func() {
		if r := recover(); r != nil {
			err = fmt.Errorf("panic: %v", r)
		}
	}()
	os.RemoveAll(refOut)
	os.MkdirAll(refOut, 0755)
	m, err := compile.Compile(filepath.Join(env.Thrift, filepath.FromSlash(sc.Prog.Files[0].RelPath())))
	if err != nil {
		return nil, nil, err
	}
	cap := &refCapture{}
	opts := &gen.Options{
		OutputDir:     refOut,
		PackagePrefix: prefixOf(sc),
		ThriftRoot:    filepath.Join(env.Root, filepath.FromSlash(thriftRootRel(sc))),
		NoRecurse:     sc.NoRecurse,
		OutputFile:    sc.OutputFile,
		Plugin:        gen.CodeGenerator{ServiceGenerator: cap},
	}
	if err := gen.Generate(m, opts); err != nil {
		return nil, nil, err
	}
	return cap.req, world.Snapshot(refOut), nil
}

// requestOf extracts the GenerateServiceRequest from a sniffed generate frame.
func requestOf(f FrameRec) (ref.Val, *api.GenerateServiceRequest, error) {
	body, ok := f.Body.Get(1)
	if !ok {
		return ref.Val{}, nil, fmt.Errorf("generate frame has no request field")
	}
	var r api.GenerateServiceRequest
	if err := r.FromWire(refwire.ToWire(body)); err != nil {
		return body, nil, err
	}
	return body, &r, nil
}

// checkFramesIntact: every plugin that was asked to generate received the same
// request, the real plugin library decoded exactly what was on the wire, and it
// equals (up to id numbering) the request of an in-process reference run; on
// success the core-generated files equal the reference run's.
func checkFramesIntact(res *world.Result, sc *Scenario, logs []*PlugLog, host *hostResult, env *Env, after map[string]string) {
	var bodies []ref.Val
	var names []string
	var first *api.GenerateServiceRequest
	for _, l := range logs {
		for _, f := range l.Recv {
			if f.Name != "ServiceGenerator:generate" || f.Bad != "" {
				continue
			}
			body, req, err := requestOf(f)
			if err != nil {
				res.Failf("C16/frames-intact", "plugin %s received a generate request that does not decode: %v", l.Script.Name, err)
				return
			}
			bodies = append(bodies, body)
			names = append(names, l.Script.Name)
			if first == nil {
				first = req
			}
			if l.Script.Conforming && l.GenCalls > 0 && !ref.Equal(l.GenReq, body) {
				res.Failf("C16/frames-intact", "plugin %s: the plugin library handed its generator %s but the wire carried %s", l.Script.Name, l.GenReq, body)
			}
		}
	}
	for i := 1; i < len(bodies); i++ {
		if !ref.Equal(bodies[0], bodies[i]) {
			res.Failf("C16/frames-intact", "plugins %s and %s received different generate requests", names[0], names[i])
		}
	}
	if first == nil && host.Err != nil {
		return
	}
	refOut := filepath.Join(filepath.Dir(env.Root), "refout")
	refReq, refFiles, err := referenceRun(sc, env, refOut)
	defer os.RemoveAll(refOut)
	if err != nil {
		if host.Err == nil {
			res.Notes = append(res.Notes, "reference run failed although the host succeeded: "+err.Error())
		}
		return
	}
	if first != nil {
		want, _ := orderw.CanonRequest(refReq)
		got, _ := orderw.CanonRequest(first)
		if strings.Join(want, "\n") != strings.Join(got, "\n") {
			res.Failf("C16/frames-intact", "the generate request on the wire differs from the in-process reference run's: %s", diffStrings(want, got))
		}
		res.Count("c16.requests-compared-with-reference", 1)
	}
	if host.Err == nil {
		for p, h := range refFiles {
			if h == "dir" {
				continue
			}
			if after["out/"+p] != h {
				res.Failf("C16/output-vs-reference", "core-generated file %s differs from the in-process reference run (or is missing)", p)
			}
		}
		res.Count("c16.outputs-compared-with-reference", 1)
	}
}

func diffStrings(a, b []string) string {
	in := map[string]bool{}
	for _, x := range b {
		in[x] = true
	}
	var out []string
	for _, x := range a {
		if !in[x] {
			out = append(out, "- "+x)
		}
	}
	in = map[string]bool{}
	for _, x := range a {
		in[x] = true
	}
	for _, x := range b {
		if !in[x] {
			out = append(out, "+ "+x)
		}
	}
	if len(out) > 4 {
		out = append(out[:4], "...")
	}
	return first(strings.Join(out, " | "), 600)
}

// checkC16 evaluates the plugin-protocol oracles over the recorded history.
func checkC16(res *world.Result, s *simrt.Sim, sc *Scenario, logs []*PlugLog, host *hostResult, env *Env) {
	if sc == nil {
		return
	}
	// Liveness / totality.
	if s.Aborted != "" {
		res.Failf("C16/liveness-"+s.Aborted, "run abandoned (%s) after %d steps; host returned=%v", s.Aborted, s.Steps, host.Returned)
	}
	if host.Panic != "" {
		res.Failf("C16/host-panic", "host panicked: %s", first(host.Panic, 600))
	}
	for _, t := range s.Tasks() {
		if t.Panic != "" {
			res.Failf("C16/task-panic", "task %s panicked: %s", t.Name, first(t.Panic, 600))
		}
	}
	if s.Aborted != "" || host.Panic != "" {
		return
	}

	allHandshakesOK := true
	for _, l := range logs {
		if !l.Script.handshakeOK() {
			allHandshakesOK = false
		}
	}
	expectFail := false
	var failedNames []string
	for _, l := range logs {
		ps := l.Script
		if ps.Fails() {
			expectFail = true
			failedNames = append(failedNames, ps.Name)
		}
	}
	// reasons of the host's own (bad option, module that does not compile or generate)
	hostWhy := hostFaults(sc)
	if sc.Conflict[0] > 0 {
		a, b := sc.Plugins[sc.Conflict[0]-1], sc.Plugins[sc.Conflict[1]-1]
		due := true
		for _, ps := range []*Script{a, b} {
			due = due && ps.handshakeOK() && ps.aliveAfterHandshake() && ps.advertisesSG() && genReplyDelivered(ps)
		}
		if due {
			hostWhy = append(hostWhy, fmt.Sprintf("plugins %s and %s answer with one file twice", a.Name, b.Name))
			res.Count("c16.conflict-due", 1)
			// a plugin that answers with a file another plugin has already answered with is a
			// plugin that failed: the failure names it (or the one it collides with)
			if host.Returned && host.Err != nil && !expectFail && !strings.Contains(host.Err.Error(), a.Name) && !strings.Contains(host.Err.Error(), b.Name) {
				res.Failf("C16/exit-status-names-plugin", "plugins %s and %s answered with the same file but the host's failure names neither: %s", a.Name, b.Name,
					first(strings.ReplaceAll(host.Err.Error(), env.Root, "$SB"), 400))
			}
		}
	}
	if len(hostWhy) > 0 {
		res.Count("c16.host-side-fault", 1)
		for _, l := range logs {
			if l.Started {
				res.Count("c16.host-side-fault-with-started-plugin", 1)
				break
			}
		}
	}

	for _, l := range logs {
		ps := l.Script
		nGen := l.count("ServiceGenerator:generate")
		nBye := l.count("Plugin:goodbye")
		nHs := l.count("Plugin:handshake")
		// 1. Gate
		if nGen > 0 && !(ps.handshakeOK() && ps.advertisesSG()) {
			res.Failf("C16/gate", "plugin %s received generate although its handshake %s", ps.Name, why(ps))
		}
		if nGen > 0 && nHs == 0 {
			res.Failf("C16/gate", "plugin %s received generate before any handshake", ps.Name)
		}
		if nGen > 0 && len(l.Recv) > 0 && l.Recv[0].Name != "Plugin:handshake" {
			res.Failf("C16/gate", "plugin %s: first request was %q, not the handshake", ps.Name, l.Recv[0].Name)
		}
		if nGen > 1 {
			res.Failf("C16/generate-once", "plugin %s received %d generate requests", ps.Name, nGen)
		}
		if nHs > 1 {
			res.Failf("C16/handshake-once", "plugin %s received %d handshake requests", ps.Name, nHs)
		}
		// order: nothing after goodbye
		for i, f := range l.Recv {
			if f.Name == "Plugin:goodbye" && i != len(l.Recv)-1 {
				res.Failf("C16/automaton", "plugin %s received %q after goodbye", ps.Name, l.Recv[i+1].Name)
			}
			if f.Bad != "" {
				res.Failf("C16/host-frame-malformed", "plugin %s received an undecodable frame: %s", ps.Name, f.Bad)
			}
		}
		// 2. Goodbye
		if nBye > 1 {
			res.Failf("C16/goodbye-once", "plugin %s received %d goodbyes", ps.Name, nBye)
		}
		if l.Started && ps.handshakeOK() && nBye == 0 {
			// The plugin whose handshake succeeded must get a goodbye unless it
			// ended by its own script before the host shut it down.
			selfExit := strings.HasPrefix(l.ExitReason, "script-exit") || l.ExitReason == "write-error"
			if ps.Conforming {
				selfExit = false
			}
			if !selfExit {
				res.Failf("C16/goodbye-missing", "plugin %s (handshake ok) saw %s without a goodbye", ps.Name, l.ExitReason)
			}
		}
		// completeness of generate when nothing fails
		if !expectFail && allHandshakesOK && ps.advertisesSG() && l.Started && nGen != 1 && host.Err == nil {
			res.Failf("C16/generate-missing", "plugin %s advertised SERVICE_GENERATOR but received %d generate requests", ps.Name, nGen)
		}
		if ps.Conforming && ps.advertisesSG() && nGen != l.GenCalls {
			res.Failf("C16/conforming-generate", "plugin %s: %d generate frames but the generator ran %d times", ps.Name, nGen, l.GenCalls)
		}
	}

	// 3. Cleanup: every started process exited and was reaped, host pipe ends closed.
	for _, p := range s.Procs {
		if !p.Exited {
			res.Failf("C16/cleanup-alive", "process %s still alive when the run ended", p.Name)
		}
		if !p.Reaped {
			res.Failf("C16/cleanup-unreaped", "process %s was never waited for", p.Name)
		}
	}
	hostClosed := map[string]bool{}
	for _, e := range s.Events {
		if e.Kind == "close-write" && strings.HasSuffix(e.Obj, ".stdin.host") {
			hostClosed[strings.TrimSuffix(e.Obj, ".stdin.host")] = true
		}
	}
	_ = hostClosed

	// 4. Exit status.
	if host.Returned && len(hostWhy) > 0 {
		if host.Err == nil {
			res.Failf("C16/exit-status-missed-failure", "the host reported success although %s", strings.Join(hostWhy, "; "))
		}
	} else if host.Returned {
		if expectFail && host.Err == nil {
			res.Failf("C16/exit-status-missed-failure", "plugins %v failed but the host reported success", failedNames)
		}
		if !expectFail && host.Err != nil {
			res.Failf("C16/exit-status-spurious-failure", "no plugin failed but the host failed: %s", first(strings.ReplaceAll(host.Err.Error(), env.Root, "$SB"), 400))
		}
		if expectFail && host.Err != nil {
			named := false
			for _, n := range failedNames {
				if strings.Contains(host.Err.Error(), n) {
					named = true
				}
			}
			if !named {
				res.Failf("C16/exit-status-names-plugin", "host error does not name any failed plugin %v: %s", failedNames, first(strings.ReplaceAll(host.Err.Error(), env.Root, "$SB"), 400))
			}
		}
	}
}

func why(ps *Script) string {
	switch {
	case ps.StartFail != 0:
		return "never happened (start failed)"
	case ps.ExitAtStart:
		return "never happened (exit at start)"
	case !ps.handshakeOK():
		return fmt.Sprintf("failed (%s)", ps.Steps[StepHandshake].Kind)
	case !ps.advertisesSG():
		return "did not advertise SERVICE_GENERATOR"
	}
	return "succeeded"
}

func first(s string, n int) string {
	if len(s) > n {
		return s[:n] + "..."
	}
	return s
}
