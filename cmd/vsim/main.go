// vsim is the orchestrator of the deterministic-simulation checks: it builds a
// seamed scratch copy of /repo's working tree, runs seeded simulated runs in
// worker processes on all cores, shrinks and records violations, matches known
// findings, and writes the evidence file.
package main

import (
	"fmt"
	"os"
)

func usage() {
	fmt.Fprintln(os.Stderr, `usage:
  vsim check <property> quick|thorough
  vsim replay <property> <file>
  vsim build-only <tag>          (development: build and keep the scratch copy)
  vsim selftest                  (determinism self-test)`)
	os.Exit(2)
}

func main() {
	if len(os.Args) < 2 {
		usage()
	}
	switch os.Args[1] {
	case "build-only":
		os.Setenv("VSIM_KEEP", "1")
		tag := "dev"
		if len(os.Args) > 2 {
			tag = os.Args[2]
		}
		b, err := PrepareBuild(buildOpts{Tag: tag, NeedRoot: true, NeedTB: true, Corpus: true, Race: os.Getenv("VSIM_RACE") != ""})
		if b != nil {
			fmt.Println("scratch:", b.Dir)
			fmt.Println("wall:", b.Wall)
			if b.Seam != nil {
				fmt.Println(b.reportJSON())
			}
		}
		if err != nil {
			fmt.Fprintln(os.Stderr, "BUILD FAILED:", err)
			os.Exit(2)
		}
	case "check":
		if len(os.Args) < 4 {
			usage()
		}
		os.Exit(runCheck(os.Args[2], os.Args[3], ""))
	case "replay":
		if len(os.Args) < 4 {
			usage()
		}
		os.Exit(runCheck(os.Args[2], "replay", os.Args[3]))
	case "selftest":
		os.Exit(runSelftest())
	case "fidelity":
		os.Exit(runFidelityCmd())
	default:
		usage()
	}
}
