package progen

import (
	"fmt"
	"sort"
	"strconv"
	"strings"
)

// model.go is the reference model of Thrift scoping and constant casting over
// the abstract program (ref.Scope of DESIGN.md): for every reference the
// (file, name) it designates is known by construction of the program; the
// model computes every typedef's ultimate non-typedef target and every
// constant's and default's value after casting to its declared type, and
// renders the canonical dump that the compiled module graph must equal.

// TypeDesc is the canonical description of a type reference.
func (p *Program) TypeDesc(t *TypeRef) string {
	switch {
	case t == nil:
		return "void"
	case t.Ref != nil:
		d := p.Lookup(t.Ref)
		if d == nil {
			return "unresolved:" + t.Ref.Name
		}
		return fmt.Sprintf("%s %s:%s", d.Kind, p.Files[d.File].RelPath(), d.Name)
	case t.Base == "list":
		return "list<" + p.TypeDesc(t.Elem) + ">"
	case t.Base == "set":
		return "set<" + p.TypeDesc(t.Elem) + ">"
	case t.Base == "map":
		return "map<" + p.TypeDesc(t.Key) + "," + p.TypeDesc(t.Elem) + ">"
	case t.Base == "byte":
		return "i8"
	}
	return t.Base
}

// LV is a linked (cast) constant value.
type LV struct {
	Kind  string // bool int double string enum list set map
	Int   int64
	Dbl   float64
	Str   string
	Bool  bool
	Enum  *Def
	Item  string
	Items []LV
	Names []string // struct: field names, parallel to Items
	Of    *Def     // struct: its definition
}

func (v LV) String() string {
	switch v.Kind {
	case "bool":
		return strconv.FormatBool(v.Bool)
	case "int":
		return fmt.Sprintf("int:%d", v.Int)
	case "double":
		return "dbl:" + strconv.FormatFloat(v.Dbl, 'g', -1, 64)
	case "string":
		return "str:" + strconv.Quote(v.Str)
	case "enum":
		return fmt.Sprintf("enum:%s.%s", v.Enum.Name, v.Item)
	case "list", "set":
		parts := make([]string, len(v.Items))
		for i, it := range v.Items {
			parts[i] = it.String()
		}
		return v.Kind + "[" + strings.Join(parts, ",") + "]"
	case "map":
		var parts []string
		for i := 0; i+1 < len(v.Items); i += 2 {
			parts = append(parts, v.Items[i].String()+":"+v.Items[i+1].String())
		}
		return "map{" + strings.Join(parts, ",") + "}"
	case "struct":
		idx := make([]int, len(v.Items))
		for i := range idx {
			idx[i] = i
		}
		sort.Slice(idx, func(a, b int) bool { return v.Names[idx[a]] < v.Names[idx[b]] })
		parts := make([]string, len(v.Items))
		for i, j := range idx {
			parts[i] = v.Names[j] + ":" + v.Items[j].String()
		}
		return "struct{" + strings.Join(parts, ",") + "}"
	}
	return "?"
}

type modelErr struct{ msg string }

func (e modelErr) Error() string { return e.msg }

func castErr(format string, a ...interface{}) error { return modelErr{fmt.Sprintf(format, a...)} }

// Link casts the written value v to the declared type t.
func (p *Program) Link(v *ConstVal, t *TypeRef) (LV, error) {
	kind := p.KindOf(t)
	switch v.Kind {
	case CBool:
		if kind != "bool" {
			return LV{}, castErr("bool literal for %s", kind)
		}
		return LV{Kind: "bool", Bool: v.Bool}, nil
	case CInt:
		return p.castInt(v.Int, t)
	case CDouble:
		if kind != "double" {
			return LV{}, castErr("double literal for %s", kind)
		}
		f, _ := strconv.ParseFloat(v.Dbl, 64)
		return LV{Kind: "double", Dbl: f}, nil
	case CString:
		if kind != "string" {
			return LV{}, castErr("string literal for %s", kind)
		}
		return LV{Kind: "string", Str: v.Str}, nil
	case CList:
		rt := p.RootOf(t)
		if kind != "list" && kind != "set" {
			return LV{}, castErr("list literal for %s", kind)
		}
		out := LV{Kind: kind}
		for _, it := range v.Items {
			x, err := p.Link(it, rt.Elem)
			if err != nil {
				return LV{}, err
			}
			out.Items = append(out.Items, x)
		}
		return out, nil
	case CMap:
		rt := p.RootOf(t)
		if kind != "map" {
			return LV{}, castErr("map literal for %s", kind)
		}
		out := LV{Kind: "map"}
		for i := 0; i+1 < len(v.Items); i += 2 {
			k, err := p.Link(v.Items[i], rt.Key)
			if err != nil {
				return LV{}, err
			}
			x, err := p.Link(v.Items[i+1], rt.Elem)
			if err != nil {
				return LV{}, err
			}
			out.Items = append(out.Items, k, x)
		}
		return out, nil
	case CStruct:
		if kind != "struct" {
			return LV{}, castErr("struct literal for %s", kind)
		}
		d := p.Lookup(p.RootOf(t).Ref)
		given := map[string]*ConstVal{}
		for i := 0; i+1 < len(v.Items); i += 2 {
			given[v.Items[i].Str] = v.Items[i+1]
		}
		out := LV{Kind: "struct", Of: d}
		for _, fd := range d.Fields {
			val, ok := given[fd.Name]
			if !ok {
				if fd.Default == nil {
					if fd.Req == ReqRequired {
						return LV{}, castErr("%s is a required field", fd.Name)
					}
					continue
				}
				val = fd.Default
			}
			x, err := p.Link(val, fd.Type)
			if err != nil {
				return LV{}, err
			}
			out.Names = append(out.Names, fd.Name)
			out.Items = append(out.Items, x)
		}
		return out, nil
	case CRef:
		if v.Item != "" {
			e := p.Lookup(v.Ref)
			if e == nil || e.Kind != KEnum {
				return LV{}, castErr("no enum %s", v.Ref.Name)
			}
			for _, it := range e.Items {
				if it.Name == v.Item {
					return LV{Kind: "enum", Enum: e, Item: it.Name}, nil
				}
			}
			return LV{}, castErr("no item %s in %s", v.Item, e.Name)
		}
		c := p.Lookup(v.Ref)
		if c == nil || c.Kind != KConst {
			return LV{}, castErr("no constant %s", v.Ref.Name)
		}
		cv, err := p.Link(c.Value, c.Type)
		if err != nil {
			return LV{}, err
		}
		return p.relink(cv, t)
	}
	return LV{}, castErr("unknown constant kind")
}

func (p *Program) castInt(n int64, t *TypeRef) (LV, error) {
	switch p.KindOf(t) {
	case "int":
		return LV{Kind: "int", Int: n}, nil
	case "double":
		return LV{Kind: "double", Dbl: float64(n)}, nil
	case "bool":
		if n == 0 || n == 1 {
			return LV{Kind: "bool", Bool: n == 1}, nil
		}
		return LV{}, castErr("%d is not 0 or 1", n)
	case "enum":
		e := p.Lookup(p.RootOf(t).Ref)
		for _, it := range e.Items {
			if int64(it.Value) == n {
				return LV{Kind: "enum", Enum: e, Item: it.Name}, nil
			}
		}
		return LV{}, castErr("%d is not a value of %s", n, e.Name)
	}
	return LV{}, castErr("int literal for %s", p.KindOf(t))
}

// relink casts an already linked value (reached through a constant
// reference) to another declared type.
func (p *Program) relink(v LV, t *TypeRef) (LV, error) {
	kind := p.KindOf(t)
	switch v.Kind {
	case "bool", "double", "string":
		if kind != v.Kind {
			return LV{}, castErr("%s constant used as %s", v.Kind, kind)
		}
		return v, nil
	case "int":
		return p.castInt(v.Int, t)
	case "enum":
		if kind != "enum" || p.Lookup(p.RootOf(t).Ref) != v.Enum {
			return LV{}, castErr("enum constant used as %s", kind)
		}
		return v, nil
	case "list", "set":
		if kind != "list" && kind != "set" {
			return LV{}, castErr("%s constant used as %s", v.Kind, kind)
		}
		if v.Kind == "set" && kind == "list" {
			return LV{}, castErr("set constant used as list")
		}
		rt := p.RootOf(t)
		out := LV{Kind: kind}
		for _, it := range v.Items {
			x, err := p.relink(it, rt.Elem)
			if err != nil {
				return LV{}, err
			}
			out.Items = append(out.Items, x)
		}
		return out, nil
	case "struct":
		if kind != "struct" || p.Lookup(p.RootOf(t).Ref) != v.Of {
			return LV{}, castErr("struct constant used as %s", kind)
		}
		return v, nil
	case "map":
		if kind != "map" {
			return LV{}, castErr("map constant used as %s", kind)
		}
		rt := p.RootOf(t)
		out := LV{Kind: "map"}
		for i := 0; i+1 < len(v.Items); i += 2 {
			k, err := p.relink(v.Items[i], rt.Key)
			if err != nil {
				return LV{}, err
			}
			x, err := p.relink(v.Items[i+1], rt.Elem)
			if err != nil {
				return LV{}, err
			}
			out.Items = append(out.Items, k, x)
		}
		return out, nil
	}
	return LV{}, castErr("unknown value")
}

func reqText(r Req) string {
	if r == ReqRequired {
		return "required"
	}
	return "optional"
}

// Dump renders the canonical description of the program as the compiler must
// see it. It fails when the program is not valid.
func (p *Program) Dump() ([]string, error) {
	if p.Invalid != "" {
		return nil, modelErr{p.Invalid}
	}
	var out []string
	for _, f := range p.Files {
		if f.Deleted {
			continue
		}
		path := f.RelPath()
		out = append(out, "module "+path)
		for _, j := range f.Includes {
			out = append(out, fmt.Sprintf("%s include %s -> %s", path, p.Files[j].Base, p.Files[j].RelPath()))
		}
		for _, d := range f.Defs {
			if d.Removed {
				continue
			}
			pre := fmt.Sprintf("%s %s %s", path, d.Kind, d.Name)
			switch d.Kind {
			case KTypedef:
				if p.Lookup(&Ref{d.File, d.Name}) == nil {
					return nil, modelErr{"dangling typedef"}
				}
				out = append(out, fmt.Sprintf("%s target=%s root=%s", pre, p.TypeDesc(d.Type), p.TypeDesc(p.RootOf(d.Type))))
			case KEnum:
				var items []string
				for _, it := range d.Items {
					items = append(items, fmt.Sprintf("%s=%d", it.Name, it.Value))
				}
				out = append(out, pre+" items="+strings.Join(items, ","))
			case KStruct, KUnion, KException:
				out = append(out, pre)
				for _, fd := range d.Fields {
					line, err := p.fieldDump(pre, fd, d.Kind != KUnion)
					if err != nil {
						return nil, err
					}
					out = append(out, line)
				}
			case KConst:
				v, err := p.Link(d.Value, d.Type)
				if err != nil {
					return nil, err
				}
				out = append(out, fmt.Sprintf("%s type=%s value=%s", pre, p.TypeDesc(d.Type), v))
			case KService:
				par := "none"
				if d.Parent != nil {
					pd := p.Lookup(d.Parent)
					if pd == nil {
						return nil, modelErr{"dangling parent"}
					}
					par = p.Files[pd.File].RelPath() + ":" + pd.Name
					if d.ParentVia > 0 {
						// written `via.file.Name`: this file must still include via, and via the parent's file
						via := p.Files[d.ParentVia-1]
						if via.Deleted || !contains(f.Includes, via.Index) || !contains(via.Includes, pd.File) {
							return nil, modelErr{"dangling parent"}
						}
					}
				}
				out = append(out, pre+" parent="+par)
				for _, fn := range d.Funcs {
					fpre := pre + " func " + fn.Name
					out = append(out, fmt.Sprintf("%s oneway=%v ret=%s", fpre, fn.OneWay, p.TypeDesc(fn.Ret)))
					for _, a := range fn.Args {
						line, err := p.fieldDump(fpre+" arg", a, false)
						if err != nil {
							return nil, err
						}
						out = append(out, line)
					}
					for _, a := range fn.Excs {
						line, err := p.fieldDump(fpre+" exc", a, false)
						if err != nil {
							return nil, err
						}
						out = append(out, line)
					}
				}
			}
		}
	}
	if err := p.checkRefs(); err != nil {
		return nil, err
	}
	sort.Strings(out)
	return out, nil
}

func (p *Program) fieldDump(pre string, fd *FieldDef, showReq bool) (string, error) {
	line := fmt.Sprintf("%s field %d %s type=%s", pre, fd.ID, fd.Name, p.TypeDesc(fd.Type))
	if showReq {
		// a field counts as required only if it is marked required and has no default
		if fd.Req == ReqRequired && fd.Default == nil {
			line += " required"
		} else {
			line += " optional"
		}
	}
	if fd.Default != nil {
		v, err := p.Link(fd.Default, fd.Type)
		if err != nil {
			return "", err
		}
		line += " default=" + v.String()
	}
	return line, nil
}

// checkRefs verifies that every type reference designates a definition.
func (p *Program) checkRefs() error {
	var bad error
	var walk func(t *TypeRef)
	walk = func(t *TypeRef) {
		if t == nil {
			return
		}
		if t.Ref != nil && p.Lookup(t.Ref) == nil {
			bad = modelErr{"unresolvable type " + t.Ref.Name}
		}
		walk(t.Key)
		walk(t.Elem)
	}
	for _, f := range p.Files {
		if f.Deleted {
			continue
		}
		for _, d := range f.Defs {
			if d.Removed {
				continue
			}
			walk(d.Type)
			for _, fd := range d.Fields {
				walk(fd.Type)
			}
			for _, fn := range d.Funcs {
				walk(fn.Ret)
				for _, a := range fn.Args {
					walk(a.Type)
				}
				for _, a := range fn.Excs {
					walk(a.Type)
				}
			}
		}
	}
	return bad
}
