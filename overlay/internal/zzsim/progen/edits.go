package progen

import (
	"fmt"
	"path"
	"sort"
	"strings"

	"go.uber.org/thriftrw/internal/zzsim/simrt"
)

// Clone returns a deep copy of the definitions (type references and constant
// values are shared; edits replace them, never mutate them).
func (p *Program) Clone() *Program {
	q := &Program{seq: p.seq, Invalid: p.Invalid}
	for _, f := range p.Files {
		nf := &File{Index: f.Index, Dir: f.Dir, Base: f.Base, Includes: append([]int{}, f.Includes...), Deleted: f.Deleted}
		for _, d := range f.Defs {
			nd := *d
			nd.Items = append([]EnumItem{}, d.Items...)
			nd.Fields = cloneFields(d.Fields)
			nd.Funcs = nil
			for _, fn := range d.Funcs {
				nfn := *fn
				nfn.Args = cloneFields(fn.Args)
				nfn.Excs = cloneFields(fn.Excs)
				nd.Funcs = append(nd.Funcs, &nfn)
			}
			nf.Defs = append(nf.Defs, &nd)
		}
		q.Files = append(q.Files, nf)
	}
	return q
}

func cloneFields(fs []*FieldDef) []*FieldDef {
	var out []*FieldDef
	for _, f := range fs {
		nf := *f
		out = append(out, &nf)
	}
	return out
}

// Edit is one step of an edit script.
type Edit struct {
	Kind     string
	Breaking bool
	What     string
}

var editKinds = []string{
	// breaking
	"remove-service", "remove-method", "add-required-field", "optional-to-required", "change-field-type", "recase-method", "renumber-field",
	// compatible
	"add-optional-field", "add-method", "add-service", "add-type", "add-const", "delete-struct", "reorder-defs", "reorder-fields",
	"change-default", "rename-field", "required-to-optional", "add-include", "add-file", "delete-file", "add-required-field-with-default", "remove-field", "change-keyword",
}

func (p *Program) structs(f *File) []*Def {
	var out []*Def
	for _, d := range f.Defs {
		if !d.Removed && (d.Kind == KStruct || d.Kind == KException) {
			out = append(out, d)
		}
	}
	return out
}

func (p *Program) services(f *File) []*Def {
	var out []*Def
	for _, d := range f.Defs {
		if !d.Removed && d.Kind == KService {
			out = append(out, d)
		}
	}
	return out
}

func nextID(fs []*FieldDef) int {
	id := 0
	for _, f := range fs {
		if f.ID > id {
			id = f.ID
		}
	}
	return id + 1
}

// ApplyEdit applies one randomly drawn edit to p (in place) and describes it.
// It returns nil when the drawn edit is not applicable. Edits that would leave
// the program uncompilable are rolled back by the caller (which re-validates).
func (p *Program) ApplyEdit(hasAddFile, hasDelFile bool) *Edit {
	kind := editKinds[ch("edit.kind", len(editKinds))]
	files := p.liveFiles()
	if len(files) == 0 {
		return nil
	}
	f := files[ch("edit.file", len(files))]
	o := Options{Unions: true, Exceptions: true}
	switch kind {
	case "remove-service":
		ss := p.services(f)
		if len(ss) == 0 {
			return nil
		}
		s := ss[ch("edit.pick", len(ss))]
		s.Removed = true
		return &Edit{kind, true, fmt.Sprintf("service %s in %s", s.Name, f.RelPath())}
	case "remove-method":
		ss := p.services(f)
		if len(ss) == 0 {
			return nil
		}
		s := ss[ch("edit.pick", len(ss))]
		if len(s.Funcs) < 2 {
			return nil
		}
		i := ch("edit.func", len(s.Funcs))
		name := s.Funcs[i].Name
		s.Funcs = append(s.Funcs[:i:i], s.Funcs[i+1:]...)
		return &Edit{kind, true, fmt.Sprintf("method %s of %s in %s", name, s.Name, f.RelPath())}
	case "recase-method":
		// a method replaced by a variant of its name in another letter case: the old one is gone
		ss := p.services(f)
		if len(ss) == 0 {
			return nil
		}
		s := ss[ch("edit.pick", len(ss))]
		if len(s.Funcs) == 0 {
			return nil
		}
		i := ch("edit.func", len(s.Funcs))
		old := s.Funcs[i].Name
		nfn := *s.Funcs[i]
		nfn.Name = strings.ToUpper(old[:1]) + old[1:]
		if nfn.Name == old {
			nfn.Name = strings.ToLower(old[:1]) + old[1:]
		}
		if nfn.Name == old {
			return nil
		}
		s.Funcs[i] = &nfn
		return &Edit{kind, true, fmt.Sprintf("method %s of %s in %s is now spelled %s", old, s.Name, f.RelPath(), nfn.Name)}
	case "add-required-field-with-default":
		// marked required but carrying a default: not required in effect, hence compatible
		ss := p.structs(f)
		if len(ss) == 0 {
			return nil
		}
		s := ss[ch("edit.pick", len(ss))]
		id := nextID(s.Fields)
		fd := &FieldDef{ID: id, Name: freshField(s.Fields, fmt.Sprintf("addeddef%d", id)), Type: &TypeRef{Base: "i32"}, Req: ReqRequired, Default: &ConstVal{Kind: CInt, Int: int64(id)}}
		s.Fields = append(s.Fields, fd)
		return &Edit{kind, false, fmt.Sprintf("field %s of %s in %s", fd.Name, s.Name, f.RelPath())}
	case "renumber-field":
		// a field keeps its name and moves to an identifier the struct has never used: the old
		// field is gone, a new one has appeared (breaking when it is required)
		ss := p.structs(f)
		if len(ss) == 0 {
			return nil
		}
		s := ss[ch("edit.pick", len(ss))]
		if len(s.Fields) == 0 {
			return nil
		}
		i := ch("edit.field", len(s.Fields))
		nf := *s.Fields[i]
		nf.ID = nextID(s.Fields) + ch("edit.id-gap", 3)
		old := s.Fields[i].ID
		s.Fields[i] = &nf
		return &Edit{kind, nf.Req == ReqRequired && nf.Default == nil, fmt.Sprintf("field %s of %s in %s moved from id %d to id %d", nf.Name, s.Name, f.RelPath(), old, nf.ID)}
	case "change-keyword":
		// struct <-> exception, union -> struct: the definition keeps its name and its fields
		var ss []*Def
		for _, d := range f.Defs {
			if !d.Removed && (d.Kind == KStruct || d.Kind == KUnion || d.Kind == KException && !p.thrown(d)) {
				ss = append(ss, d)
			}
		}
		if len(ss) == 0 {
			return nil
		}
		s := ss[ch("edit.pick", len(ss))]
		was := s.Kind
		switch s.Kind {
		case KStruct:
			s.Kind = KException
		default:
			s.Kind = KStruct
		}
		return &Edit{kind, false, fmt.Sprintf("%s %s in %s is now a %s", was, s.Name, f.RelPath(), s.Kind)}
	case "remove-field":
		// dropping a field is not one of the documented breaking changes
		var ss []*Def
		for _, d := range f.Defs {
			if !d.Removed && (d.Kind == KStruct || d.Kind == KException || d.Kind == KUnion) && len(d.Fields) > 1 {
				ss = append(ss, d)
			}
		}
		if len(ss) == 0 {
			return nil
		}
		s := ss[ch("edit.pick", len(ss))]
		i := ch("edit.field", len(s.Fields))
		name := s.Fields[i].Name
		s.Fields = append(s.Fields[:i:i], s.Fields[i+1:]...)
		return &Edit{kind, false, fmt.Sprintf("field %s of %s in %s", name, s.Name, f.RelPath())}
	case "add-required-field", "add-optional-field":
		ss := p.structs(f)
		if len(ss) == 0 {
			return nil
		}
		s := ss[ch("edit.pick", len(ss))]
		id := nextID(s.Fields)
		if simrt.Flip("edit.low-id", 0.4) {
			// an identifier below the highest one that is free (never used, or freed by a removal)
			used := map[int]bool{}
			for _, x := range s.Fields {
				used[x.ID] = true
			}
			for k := 1; k < id; k++ {
				if !used[k] {
					id = k
					break
				}
			}
		}
		fd := &FieldDef{ID: id, Name: freshField(s.Fields, fmt.Sprintf("added%d", id)), Type: &TypeRef{Base: baseTypes[ch("edit.base", len(baseTypes))]}, Req: ReqOptional}
		if kind == "add-required-field" {
			fd.Req = ReqRequired
		} else if simrt.Flip("edit.optional-default", 0.3) {
			fd.Default = p.genValue(f, fd.Type, Options{}, 1)
			if p.KindOf(fd.Type) == "binary" {
				fd.Default = nil
			}
		}
		pos := ch("edit.pos", len(s.Fields)+1)
		s.Fields = append(s.Fields[:pos:pos], append([]*FieldDef{fd}, s.Fields[pos:]...)...)
		return &Edit{kind, kind == "add-required-field", fmt.Sprintf("field %s of %s in %s", fd.Name, s.Name, f.RelPath())}
	case "optional-to-required", "required-to-optional":
		ss := p.structs(f)
		if len(ss) == 0 {
			return nil
		}
		s := ss[ch("edit.pick", len(ss))]
		var cands []*FieldDef
		for _, fd := range s.Fields {
			if kind == "optional-to-required" && fd.Req == ReqOptional && fd.Default == nil {
				cands = append(cands, fd)
			}
			if kind == "required-to-optional" && fd.Req == ReqRequired {
				cands = append(cands, fd)
			}
		}
		if len(cands) == 0 {
			return nil
		}
		fd := cands[ch("edit.field", len(cands))]
		if kind == "optional-to-required" {
			fd.Req = ReqRequired
		} else {
			fd.Req = ReqOptional
		}
		return &Edit{kind, kind == "optional-to-required", fmt.Sprintf("field %s of %s in %s", fd.Name, s.Name, f.RelPath())}
	case "change-field-type":
		var ss []*Def
		for _, d := range f.Defs {
			if !d.Removed && (d.Kind == KStruct || d.Kind == KException || d.Kind == KUnion) && len(d.Fields) > 0 {
				ss = append(ss, d)
			}
		}
		if len(ss) == 0 {
			return nil
		}
		s := ss[ch("edit.pick", len(ss))]
		fd := s.Fields[ch("edit.field", len(s.Fields))]
		old := p.bareType(fd.Type)
		var nt *TypeRef
		for try := 0; try < 4; try++ {
			nt = p.genType(f, 1, o)
			if p.bareType(nt) != old {
				break
			}
			nt = nil
		}
		if nt == nil {
			return nil
		}
		fd.Type = nt
		fd.Default = nil
		what := fmt.Sprintf("field %s of %s in %s: %s -> %s", fd.Name, s.Name, f.RelPath(), old, p.bareType(nt))
		// the same edit may change the field's requiredness too (both rules then apply to one field)
		if s.Kind != KUnion {
			switch ch("edit.retype-and", 4) {
			case 1:
				if fd.Req == ReqOptional {
					fd.Req = ReqRequired
					what += ", and optional -> required"
				}
			case 2:
				if fd.Req == ReqRequired {
					fd.Req = ReqOptional
					what += ", and required -> optional"
				}
			}
		}
		return &Edit{kind, true, what}
	case "add-method":
		ss := p.services(f)
		if len(ss) == 0 {
			return nil
		}
		s := ss[ch("edit.pick", len(ss))]
		p.seq++
		s.Funcs = append(s.Funcs, &Func{Name: fmt.Sprintf("added%d", p.seq), Args: p.genFields(f, "arg", 2, o, false)})
		return &Edit{kind, false, fmt.Sprintf("method in %s of %s", s.Name, f.RelPath())}
	case "add-service":
		p.genService(f, o)
		return &Edit{kind, false, "service in " + f.RelPath()}
	case "add-type":
		switch ch("edit.type-kind", 3) {
		case 0:
			p.add(f, &Def{Kind: KStruct, Name: p.name("S"), Fields: p.genFields(f, "fld", 3, o, false)})
		case 1:
			p.add(f, &Def{Kind: KTypedef, Name: p.name("Td"), Type: p.genType(f, 0, o)})
		default:
			p.add(f, &Def{Kind: KEnum, Name: p.name("E"), Items: []EnumItem{{Name: fmt.Sprintf("NEW%d_A", p.seq)}, {Name: fmt.Sprintf("NEW%d_B", p.seq), Value: 1}}})
		}
		return &Edit{kind, false, "type in " + f.RelPath()}
	case "add-const":
		p.genConst(f, Options{})
		return &Edit{kind, false, "constant in " + f.RelPath()}
	case "delete-struct":
		ss := p.structs(f)
		if len(ss) == 0 {
			return nil
		}
		s := ss[ch("edit.pick", len(ss))]
		s.Removed = true
		return &Edit{kind, false, fmt.Sprintf("struct %s in %s", s.Name, f.RelPath())}
	case "reorder-defs":
		if len(f.Defs) < 2 {
			return nil
		}
		i := ch("edit.pos", len(f.Defs)-1)
		f.Defs[i], f.Defs[i+1] = f.Defs[i+1], f.Defs[i]
		return &Edit{kind, false, "definitions of " + f.RelPath()}
	case "reorder-fields":
		ss := p.structs(f)
		if len(ss) == 0 {
			return nil
		}
		s := ss[ch("edit.pick", len(ss))]
		if len(s.Fields) < 2 {
			return nil
		}
		i := ch("edit.pos", len(s.Fields)-1)
		s.Fields[i], s.Fields[i+1] = s.Fields[i+1], s.Fields[i]
		return &Edit{kind, false, fmt.Sprintf("fields of %s in %s", s.Name, f.RelPath())}
	case "change-default":
		for _, s := range p.structs(f) {
			for _, fd := range s.Fields {
				if fd.Default != nil && fd.Default.Kind == CInt && p.KindOf(fd.Type) == "int" {
					nd := *fd.Default
					nd.Int++
					fd.Default = &nd
					return &Edit{kind, false, fmt.Sprintf("default of %s.%s in %s", s.Name, fd.Name, f.RelPath())}
				}
			}
		}
		return nil
	case "rename-field":
		ss := p.structs(f)
		if len(ss) == 0 {
			return nil
		}
		s := ss[ch("edit.pick", len(ss))]
		if len(s.Fields) == 0 {
			return nil
		}
		fd := s.Fields[ch("edit.field", len(s.Fields))]
		fd.Name = fd.Name + "x"
		return &Edit{kind, false, fmt.Sprintf("field of %s in %s renamed to %s", s.Name, f.RelPath(), fd.Name)}
	case "add-include":
		var cands []int
		for _, g := range files {
			if g.Index > f.Index && !contains(f.Includes, g.Index) {
				cands = append(cands, g.Index)
			}
		}
		if len(cands) == 0 {
			return nil
		}
		j := cands[ch("edit.pick", len(cands))]
		f.Includes = append(f.Includes, j)
		return &Edit{kind, false, fmt.Sprintf("%s now includes %s", f.RelPath(), p.Files[j].RelPath())}
	case "add-file":
		if hasAddFile {
			return nil
		}
		nf := &File{Index: len(p.Files), Dir: f.Dir, Base: fmt.Sprintf("extra%d", len(p.Files))}
		p.Files = append(p.Files, nf)
		p.add(nf, &Def{Kind: KStruct, Name: p.name("S"), Fields: p.genFields(nf, "fld", 3, o, false)})
		if simrt.Flip("edit.new-file-service", 0.5) {
			p.genService(nf, o)
		}
		f.Includes = append(f.Includes, nf.Index)
		return &Edit{"add-file", false, fmt.Sprintf("new file %s included by %s", nf.RelPath(), f.RelPath())}
	case "delete-file":
		if hasDelFile || f.Index == 0 {
			return nil
		}
		f.Deleted = true
		for _, g := range p.Files {
			var inc []int
			for _, j := range g.Includes {
				if j != f.Index {
					inc = append(inc, j)
				}
			}
			g.Includes = inc
		}
		breaking := len(p.services(f)) > 0
		return &Edit{"delete-file", breaking, "file " + f.RelPath()}
	}
	return nil
}

func (p *Program) liveFiles() []*File {
	var out []*File
	for _, f := range p.Files {
		if !f.Deleted {
			out = append(out, f)
		}
	}
	return out
}

// bareType is the declared type as the break linter names it: named types by
// their bare name, containers spelled out.
func (p *Program) bareType(t *TypeRef) string {
	switch {
	case t == nil:
		return "void"
	case t.Ref != nil:
		return t.Ref.Name
	case t.Base == "list":
		return "list<" + p.bareType(t.Elem) + ">"
	case t.Base == "set":
		return "set<" + p.bareType(t.Elem) + ">"
	case t.Base == "map":
		return "map<" + p.bareType(t.Key) + "," + p.bareType(t.Elem) + ">"
	case t.Base == "byte":
		return "i8"
	}
	return t.Base
}

// Diag is an expected diagnostic of the break linter: the file it must be
// attributed to and the quoted names its message must carry.
type Diag struct {
	File     string // path relative to the repository
	BaseOnly bool   // the tool reports only the base name (deleted service)
	Rule     string
	Names    []string
}

func (d Diag) String() string {
	return fmt.Sprintf("%s: %s %v", d.File, d.Rule, d.Names)
}

// Breaking is the reference model of the documented breaking-change rules
// (ref.Breaking of DESIGN.md): it compares two versions of a program file by
// file. Only files whose text changed (or that were deleted) are examined, as
// the linter works on the commit's diff.
func Breaking(before, after *Program) []Diag {
	var out []Diag
	for i, bf := range before.Files {
		if bf.Deleted {
			continue
		}
		var af *File
		if i < len(after.Files) && !after.Files[i].Deleted {
			af = after.Files[i]
		}
		file := bf.RelPath()
		if af == nil {
			for _, s := range before.services(bf) {
				out = append(out, Diag{File: path.Base(file), BaseOnly: true, Rule: "deleting service", Names: []string{s.Name}})
			}
			continue
		}
		if before.Render(i) == after.Render(i) {
			continue
		}
		find := func(name string, kinds ...DefKind) *Def {
			for _, d := range af.Defs {
				if d.Removed || d.Name != name {
					continue
				}
				for _, k := range kinds {
					if d.Kind == k {
						return d
					}
				}
			}
			return nil
		}
		for _, d := range bf.Defs {
			if d.Removed {
				continue
			}
			switch d.Kind {
			case KService:
				to := find(d.Name, KService)
				if to == nil {
					out = append(out, Diag{File: path.Base(file), BaseOnly: true, Rule: "deleting service", Names: []string{d.Name}})
					continue
				}
				have := map[string]bool{}
				for _, fn := range to.Funcs {
					have[fn.Name] = true
				}
				for _, fn := range d.Funcs {
					if !have[fn.Name] {
						out = append(out, Diag{File: file, Rule: "removing method", Names: []string{fn.Name, d.Name}})
					}
				}
			case KStruct, KUnion, KException:
				to := find(d.Name, KStruct, KUnion, KException)
				if to == nil {
					continue // deleting a struct is allowed
				}
				byID := map[int]*FieldDef{}
				for _, fd := range d.Fields {
					byID[fd.ID] = fd
				}
				for _, tf := range to.Fields {
					toReq := tf.Req == ReqRequired && tf.Default == nil
					ff, ok := byID[tf.ID]
					if !ok {
						if toReq {
							out = append(out, Diag{File: file, Rule: "adding a required field", Names: []string{tf.Name, to.Name}})
						}
						continue
					}
					fromReq := ff.Req == ReqRequired && ff.Default == nil
					if !fromReq && toReq {
						out = append(out, Diag{File: file, Rule: "optional to required", Names: []string{tf.Name, to.Name}})
					}
					if before.bareType(ff.Type) != after.bareType(tf.Type) {
						out = append(out, Diag{File: file, Rule: "changing type", Names: []string{tf.Name, to.Name}})
					}
				}
			}
		}
	}
	sort.Slice(out, func(i, j int) bool { return out[i].String() < out[j].String() })
	return out
}

// --- twins: a second file with the same base name and the same content in another directory ---

func remapRef(r *Ref, from, to int) *Ref {
	if r == nil {
		return nil
	}
	if r.File == from {
		return &Ref{File: to, Name: r.Name}
	}
	return r
}

func remapType(t *TypeRef, from, to int) *TypeRef {
	if t == nil {
		return nil
	}
	return &TypeRef{Base: t.Base, Key: remapType(t.Key, from, to), Elem: remapType(t.Elem, from, to), Ref: remapRef(t.Ref, from, to), Slice: t.Slice}
}

func remapVal(v *ConstVal, from, to int) *ConstVal {
	if v == nil {
		return nil
	}
	nv := *v
	nv.Ref = remapRef(v.Ref, from, to)
	nv.Items = nil
	for _, it := range v.Items {
		nv.Items = append(nv.Items, remapVal(it, from, to))
	}
	return &nv
}

func remapFields(fs []*FieldDef, from, to int) []*FieldDef {
	var out []*FieldDef
	for _, f := range fs {
		nf := *f
		nf.Type = remapType(f.Type, from, to)
		nf.Default = remapVal(f.Default, from, to)
		out = append(out, &nf)
	}
	return out
}

// copyFileAs fills dst (index dst.Index) with a copy of src's includes and
// definitions in which references to src itself point to dst.
func (p *Program) copyFileAs(src, dst *File) {
	dst.Includes = append([]int{}, src.Includes...)
	dst.Deleted = src.Deleted
	dst.Defs = nil
	for _, d := range src.Defs {
		nd := *d
		nd.File = dst.Index
		nd.Type = remapType(d.Type, src.Index, dst.Index)
		nd.Value = remapVal(d.Value, src.Index, dst.Index)
		nd.Parent = remapRef(d.Parent, src.Index, dst.Index)
		if d.ParentVia-1 == src.Index {
			nd.ParentVia = dst.Index + 1
		}
		nd.Items = append([]EnumItem{}, d.Items...)
		nd.Fields = remapFields(d.Fields, src.Index, dst.Index)
		nd.Funcs = nil
		for _, fn := range d.Funcs {
			nfn := *fn
			nfn.Ret = remapType(fn.Ret, src.Index, dst.Index)
			nfn.Args = remapFields(fn.Args, src.Index, dst.Index)
			nfn.Excs = remapFields(fn.Excs, src.Index, dst.Index)
			nd.Funcs = append(nd.Funcs, &nfn)
		}
		dst.Defs = append(dst.Defs, &nd)
	}
}

// AddTwin appends a file with the base name and content of file i in directory
// dir (api/v1/users.thrift next to api/v2/users.thrift); nothing includes it.
// It returns the twin's index.
func (p *Program) AddTwin(i int, dir string) int {
	src := p.Files[i]
	dst := &File{Index: len(p.Files), Dir: dir, Base: src.Base}
	p.Files = append(p.Files, dst)
	p.copyFileAs(src, dst)
	return dst.Index
}

// SyncTwin makes file j the twin of file i again (after edits to i).
func (p *Program) SyncTwin(i, j int) { p.copyFileAs(p.Files[i], p.Files[j]) }

// DropFile removes file j from the program for good (in every version).
func (p *Program) DropFile(j int) {
	p.Files[j].Deleted = true
	p.Files[j].Defs = nil
	p.Files[j].Includes = nil
}

// thrown reports whether some method of the program lists d among its exceptions.
func (p *Program) thrown(d *Def) bool {
	for _, f := range p.Files {
		for _, sv := range f.Defs {
			for _, fn := range sv.Funcs {
				for _, a := range fn.Excs {
					if a.Type != nil && a.Type.Ref != nil && a.Type.Ref.Name == d.Name && a.Type.Ref.File == d.File {
						return true
					}
				}
			}
		}
	}
	return false
}

// freshField is name, lengthened until no field of fs carries it (a renumbered field keeps
// the name it was given under its old identifier).
func freshField(fs []*FieldDef, name string) string {
	for again := true; again; {
		again = false
		for _, f := range fs {
			if f.Name == name {
				name += "n"
				again = true
			}
		}
	}
	return name
}

// AddWideStruct adds a struct with n optional i32 fields to the first file and returns its name.
func (p *Program) AddWideStruct(n int) string {
	d := &Def{Kind: KStruct, Name: "WideRecord"}
	for i := 1; i <= n; i++ {
		d.Fields = append(d.Fields, &FieldDef{ID: i, Name: fmt.Sprintf("w%d", i), Req: ReqOptional, Type: &TypeRef{Base: "i32"}})
	}
	p.add(p.Files[0], d)
	return d.Name
}

// RequireAll turns every optional field of the named struct of the first file into a required one
// and returns how many it changed.
func (p *Program) RequireAll(name string) int {
	n := 0
	for _, d := range p.Files[0].Defs {
		if d.Name == name && d.Kind == KStruct && !d.Removed {
			for _, fd := range d.Fields {
				if fd.Req == ReqOptional {
					fd.Req = ReqRequired
					n++
				}
			}
		}
	}
	return n
}
