// Package orderw is the order-world engine (C07, C10, C20): compilation, code
// generation and the break linter executed under seeded map-iteration orders
// (every range-over-map of the code under test goes through simrt.MapSeq) and
// definition orders, compared across schedules and against reference models.
package orderw

import (
	"fmt"
	"path/filepath"
	"sort"
	"strconv"
	"strings"

	"go.uber.org/thriftrw/ast"
	"go.uber.org/thriftrw/compile"
)

// MemFS is an in-memory compile.FS rooted at Root.
type MemFS struct {
	Root  string
	Files map[string]string // relative path -> contents
	Reads int
}

func (m *MemFS) Read(name string) ([]byte, error) {
	m.Reads++
	rel, err := filepath.Rel(m.Root, name)
	if err != nil {
		return nil, err
	}
	s, ok := m.Files[filepath.ToSlash(rel)]
	if !ok {
		return nil, fmt.Errorf("open %s: no such file", name)
	}
	return []byte(s), nil
}

func (m *MemFS) Abs(p string) (string, error) {
	if filepath.IsAbs(p) {
		return filepath.Clean(p), nil
	}
	return filepath.Join(m.Root, p), nil
}

type dumper struct {
	root    string
	lines   []string
	modules map[string][]*compile.Module // abs path -> distinct module objects seen
	problem []string
}

func (d *dumper) rel(path string) string {
	r, err := filepath.Rel(d.root, path)
	if err != nil {
		return path
	}
	return filepath.ToSlash(r)
}

func kindOf(t compile.TypeSpec) string {
	switch s := t.(type) {
	case *compile.TypedefSpec:
		return "typedef"
	case *compile.EnumSpec:
		return "enum"
	case *compile.StructSpec:
		switch s.Type {
		case ast.UnionType:
			return "union"
		case ast.ExceptionType:
			return "exception"
		}
		return "struct"
	}
	return ""
}

func (d *dumper) typeDesc(t compile.TypeSpec) string {
	if t == nil {
		return "void"
	}
	switch s := t.(type) {
	case *compile.BoolSpec:
		return "bool"
	case *compile.I8Spec:
		return "i8"
	case *compile.I16Spec:
		return "i16"
	case *compile.I32Spec:
		return "i32"
	case *compile.I64Spec:
		return "i64"
	case *compile.DoubleSpec:
		return "double"
	case *compile.StringSpec:
		return "string"
	case *compile.BinarySpec:
		return "binary"
	case *compile.ListSpec:
		return "list<" + d.typeDesc(s.ValueSpec) + ">"
	case *compile.SetSpec:
		return "set<" + d.typeDesc(s.ValueSpec) + ">"
	case *compile.MapSpec:
		return "map<" + d.typeDesc(s.KeySpec) + "," + d.typeDesc(s.ValueSpec) + ">"
	case *compile.TypedefSpec, *compile.EnumSpec, *compile.StructSpec:
		return fmt.Sprintf("%s %s:%s", kindOf(t), d.rel(t.ThriftFile()), t.ThriftName())
	}
	d.problem = append(d.problem, fmt.Sprintf("unresolved type node %T", t))
	return fmt.Sprintf("unresolved:%T", t)
}

func (d *dumper) valDesc(v compile.ConstantValue) string {
	switch c := v.(type) {
	case compile.ConstantBool:
		return strconv.FormatBool(bool(c))
	case compile.ConstantInt:
		return fmt.Sprintf("int:%d", int64(c))
	case compile.ConstantDouble:
		return "dbl:" + strconv.FormatFloat(float64(c), 'g', -1, 64)
	case compile.ConstantString:
		return "str:" + strconv.Quote(string(c))
	case compile.ConstantList:
		parts := make([]string, len(c))
		for i, it := range c {
			parts[i] = d.valDesc(it)
		}
		return "list[" + strings.Join(parts, ",") + "]"
	case compile.ConstantSet:
		parts := make([]string, len(c))
		for i, it := range c {
			parts[i] = d.valDesc(it)
		}
		return "set[" + strings.Join(parts, ",") + "]"
	case compile.ConstantMap:
		parts := make([]string, len(c))
		for i, it := range c {
			parts[i] = d.valDesc(it.Key) + ":" + d.valDesc(it.Value)
		}
		return "map{" + strings.Join(parts, ",") + "}"
	case *compile.ConstantStruct:
		var ks []string
		for k := range c.Fields {
			ks = append(ks, k)
		}
		sort.Strings(ks)
		parts := make([]string, len(ks))
		for i, k := range ks {
			parts[i] = k + ":" + d.valDesc(c.Fields[k])
		}
		return "struct{" + strings.Join(parts, ",") + "}"
	case compile.EnumItemReference:
		return fmt.Sprintf("enum:%s.%s", c.Enum.Name, c.Item.Name)
	case compile.ConstReference:
		if c.Target == nil {
			return "nil-const-ref"
		}
		return d.valDesc(c.Target.Value)
	}
	d.problem = append(d.problem, fmt.Sprintf("unresolved constant node %T", v))
	return fmt.Sprintf("unresolved:%T", v)
}

func (d *dumper) field(pre string, f *compile.FieldSpec, showReq bool) {
	line := fmt.Sprintf("%s field %d %s type=%s", pre, f.ID, f.Name, d.typeDesc(f.Type))
	if showReq {
		if f.Required {
			line += " required"
		} else {
			line += " optional"
		}
	}
	if f.Default != nil {
		line += " default=" + d.valDesc(f.Default)
	}
	d.lines = append(d.lines, line)
}

func (d *dumper) module(m *compile.Module) {
	for _, seen := range d.modules[m.ThriftPath] {
		if seen == m {
			return
		}
	}
	d.modules[m.ThriftPath] = append(d.modules[m.ThriftPath], m)
	if len(d.modules[m.ThriftPath]) > 1 {
		return // a second object for the same file: reported by the sharing oracle
	}
	path := d.rel(m.ThriftPath)
	d.lines = append(d.lines, "module "+path)
	for name, inc := range m.Includes {
		d.lines = append(d.lines, fmt.Sprintf("%s include %s -> %s", path, name, d.rel(inc.Module.ThriftPath)))
		d.module(inc.Module)
	}
	for name, t := range m.Types {
		pre := fmt.Sprintf("%s %s %s", path, kindOf(t), name)
		switch s := t.(type) {
		case *compile.TypedefSpec:
			root := compile.RootTypeSpec(s)
			rd := "<nil>"
			if root != nil {
				rd = d.typeDesc(root)
			} else {
				d.problem = append(d.problem, fmt.Sprintf("typedef %s in %s has no root type", name, path))
			}
			d.lines = append(d.lines, fmt.Sprintf("%s target=%s root=%s", pre, d.typeDesc(s.Target), rd))
		case *compile.EnumSpec:
			var items []string
			for _, it := range s.Items {
				items = append(items, fmt.Sprintf("%s=%d", it.Name, it.Value))
			}
			d.lines = append(d.lines, pre+" items="+strings.Join(items, ","))
		case *compile.StructSpec:
			d.lines = append(d.lines, pre)
			for _, f := range s.Fields {
				d.field(pre, f, s.Type != ast.UnionType)
			}
		default:
			d.problem = append(d.problem, fmt.Sprintf("type %s in %s is a %T", name, path, t))
		}
	}
	for name, c := range m.Constants {
		d.lines = append(d.lines, fmt.Sprintf("%s const %s type=%s value=%s", path, name, d.typeDesc(c.Type), d.valDesc(c.Value)))
	}
	for name, s := range m.Services {
		pre := fmt.Sprintf("%s service %s", path, name)
		par := "none"
		if s.Parent != nil {
			par = d.rel(s.Parent.File) + ":" + s.Parent.Name
		}
		d.lines = append(d.lines, pre+" parent="+par)
		for fname, fn := range s.Functions {
			fpre := pre + " func " + fname
			var ret compile.TypeSpec
			if fn.ResultSpec != nil {
				ret = fn.ResultSpec.ReturnType
			}
			d.lines = append(d.lines, fmt.Sprintf("%s oneway=%v ret=%s", fpre, fn.OneWay, d.typeDesc(ret)))
			for _, a := range fn.ArgsSpec {
				d.field(fpre+" arg", a, false)
			}
			if fn.ResultSpec != nil {
				for _, a := range fn.ResultSpec.Exceptions {
					d.field(fpre+" exc", a, false)
				}
			}
		}
	}
}

// DumpModule renders the canonical dump of a compiled module graph, the list
// of structural problems found in it (nil roots, unresolved nodes) and the
// files for which more than one Module object exists.
func DumpModule(root string, m *compile.Module) (lines []string, problems []string, duplicated []string) {
	d := &dumper{root: root, modules: map[string][]*compile.Module{}}
	func() {
		defer func() {
			if r := recover(); r != nil {
				d.problem = append(d.problem, fmt.Sprintf("panic while walking the module graph: %v", r))
			}
		}()
		d.module(m)
	}()
	for p, ms := range d.modules {
		if len(ms) > 1 {
			duplicated = append(duplicated, d.rel(p))
		}
	}
	sort.Strings(d.lines)
	sort.Strings(duplicated)
	return d.lines, d.problem, duplicated
}
