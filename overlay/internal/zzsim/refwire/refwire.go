// Package refwire converts between thriftrw's wire.Value and the harness's
// own value tree (ref.Val).
package refwire

import (
	"math"

	"go.uber.org/thriftrw/internal/zzsim/ref"
	"go.uber.org/thriftrw/wire"
)

// FromWire converts a wire.Value (forcing lazy containers) into a ref.Val.
// It panics like the underlying accessors do; callers recover.
func FromWire(v wire.Value) ref.Val {
	switch v.Type() {
	case wire.TBool:
		return ref.Bool(v.GetBool())
	case wire.TI8:
		return ref.I8(v.GetI8())
	case wire.TDouble:
		return ref.Val{T: ref.TDouble, I: int64(math.Float64bits(v.GetDouble()))}
	case wire.TI16:
		return ref.I16(v.GetI16())
	case wire.TI32:
		return ref.I32(v.GetI32())
	case wire.TI64:
		return ref.I64(v.GetI64())
	case wire.TBinary:
		return ref.Bin(append([]byte{}, v.GetBinary()...))
	case wire.TStruct:
		out := ref.Val{T: ref.TStruct}
		for _, f := range v.GetStruct().Fields {
			out.Fields = append(out.Fields, ref.Field{ID: f.ID, V: FromWire(f.Value)})
		}
		return out
	case wire.TMap:
		m := v.GetMap()
		out := ref.Val{T: ref.TMap, KT: byte(m.KeyType()), VT: byte(m.ValueType())}
		m.ForEach(func(it wire.MapItem) error {
			out.Items = append(out.Items, FromWire(it.Key), FromWire(it.Value))
			return nil
		})
		m.Close()
		return out
	case wire.TSet:
		l := v.GetSet()
		out := ref.Val{T: ref.TSet, VT: byte(l.ValueType())}
		l.ForEach(func(it wire.Value) error {
			out.Items = append(out.Items, FromWire(it))
			return nil
		})
		l.Close()
		return out
	case wire.TList:
		l := v.GetList()
		out := ref.Val{T: ref.TList, VT: byte(l.ValueType())}
		l.ForEach(func(it wire.Value) error {
			out.Items = append(out.Items, FromWire(it))
			return nil
		})
		l.Close()
		return out
	}
	return ref.Val{}
}

// ToWire converts a ref.Val into a wire.Value backed by slices.
func ToWire(v ref.Val) wire.Value {
	switch v.T {
	case ref.TBool:
		return wire.NewValueBool(v.I != 0)
	case ref.TI8:
		return wire.NewValueI8(int8(v.I))
	case ref.TDouble:
		return wire.NewValueDouble(math.Float64frombits(uint64(v.I)))
	case ref.TI16:
		return wire.NewValueI16(int16(v.I))
	case ref.TI32:
		return wire.NewValueI32(int32(v.I))
	case ref.TI64:
		return wire.NewValueI64(v.I)
	case ref.TBinary:
		return wire.NewValueBinary(v.B)
	case ref.TStruct:
		fs := make([]wire.Field, len(v.Fields))
		for i, f := range v.Fields {
			fs[i] = wire.Field{ID: f.ID, Value: ToWire(f.V)}
		}
		return wire.NewValueStruct(wire.Struct{Fields: fs})
	case ref.TMap:
		items := make([]wire.MapItem, 0, len(v.Items)/2)
		for i := 0; i+1 < len(v.Items); i += 2 {
			items = append(items, wire.MapItem{Key: ToWire(v.Items[i]), Value: ToWire(v.Items[i+1])})
		}
		return wire.NewValueMap(wire.MapItemListFromSlice(wire.Type(v.KT), wire.Type(v.VT), items))
	case ref.TSet:
		return wire.NewValueSet(wire.ValueListFromSlice(wire.Type(v.VT), vals(v.Items)))
	case ref.TList:
		return wire.NewValueList(wire.ValueListFromSlice(wire.Type(v.VT), vals(v.Items)))
	}
	return wire.Value{}
}

func vals(items []ref.Val) []wire.Value {
	out := make([]wire.Value, len(items))
	for i, it := range items {
		out[i] = ToWire(it)
	}
	return out
}

// NestedWalk, when set, decides whether Force starts a second walk of a container from
// inside the callback of the first.
var NestedWalk func() bool

// Force converts a wire.Value into a ref.Val, forcing every lazy container
// exactly once and closing it, and propagating the errors forcing reports.
func Force(v wire.Value) (out ref.Val, err error) {
	switch v.Type() {
	case wire.TStruct:
		out = ref.Val{T: ref.TStruct}
		for _, f := range v.GetStruct().Fields {
			fv, err := Force(f.Value)
			if err != nil {
				return out, err
			}
			out.Fields = append(out.Fields, ref.Field{ID: f.ID, V: fv})
		}
		return out, nil
	case wire.TMap:
		m := v.GetMap()
		out = ref.Val{T: ref.TMap, KT: byte(m.KeyType()), VT: byte(m.ValueType())}
		firstItem := true
		err = m.ForEach(func(it wire.MapItem) error {
			if firstItem && m.Size() <= 64 && NestedWalk != nil && NestedWalk() {
				// (an error met by the inner walk is an error of forcing this value)
				if err := m.ForEach(func(wire.MapItem) error { return nil }); err != nil {
					return err
				}
			}
			firstItem = false
			k, err := Force(it.Key)
			if err != nil {
				return err
			}
			x, err := Force(it.Value)
			if err != nil {
				return err
			}
			out.Items = append(out.Items, k, x)
			return nil
		})
		m.Close()
		return out, err
	case wire.TSet, wire.TList:
		var l wire.ValueList
		if v.Type() == wire.TSet {
			l = v.GetSet()
			out = ref.Val{T: ref.TSet}
		} else {
			l = v.GetList()
			out = ref.Val{T: ref.TList}
		}
		out.VT = byte(l.ValueType())
		first := true
		err = l.ForEach(func(it wire.Value) error {
			if first && l.Size() <= 64 && NestedWalk != nil && NestedWalk() {
				// a second walk of the same container from inside the first (what a pairwise
				// comparison does); it must not disturb the walk it interrupts
				if err := l.ForEach(func(wire.Value) error { return nil }); err != nil {
					return err
				}
			}
			first = false
			x, err := Force(it)
			if err != nil {
				return err
			}
			out.Items = append(out.Items, x)
			return nil
		})
		l.Close()
		return out, err
	}
	return FromWire(v), nil
}
