// emitwrappers writes, next to every given Thrift file X.thrift, a file
// zzwrap_X.thrift that includes X and declares structs whose fields use every
// type X defines (directly, in a list and as a map value; once optional, once
// required). The repository's test schemas define many typedefs and enums that
// none of their structs use; without the wrappers the generated readers and
// writers of those types would never run in the wire-world checks.
package main

import (
	"fmt"
	"os"
	"path/filepath"
	"sort"
	"strings"

	"go.uber.org/thriftrw/ast"
	"go.uber.org/thriftrw/idl"
)

func main() {
	for _, path := range os.Args[1:] {
		base := strings.TrimSuffix(filepath.Base(path), ".thrift")
		if strings.Contains(base, "-") || strings.HasPrefix(base, "zzwrap_") {
			continue // a hyphenated file cannot be included
		}
		src, err := os.ReadFile(path)
		if err != nil {
			fmt.Fprintln(os.Stderr, err)
			os.Exit(1)
		}
		prog, err := idl.Parse(src)
		if err != nil {
			continue // not our business here
		}
		var names []string
		for _, d := range prog.Definitions {
			switch v := d.(type) {
			case *ast.Typedef:
				names = append(names, v.Name)
			case *ast.Enum:
				names = append(names, v.Name)
			case *ast.Struct:
				names = append(names, v.Name)
			}
		}
		sort.Strings(names)
		if len(names) == 0 {
			continue
		}
		var b strings.Builder
		fmt.Fprintf(&b, "include \"./%s.thrift\"\n\n", base)
		fmt.Fprintf(&b, "struct WrapOptional {\n")
		id := 1
		for _, n := range names {
			fmt.Fprintf(&b, "  %d: optional %s.%s d%d\n", id, base, n, id)
			fmt.Fprintf(&b, "  %d: optional list<%s.%s> l%d\n", id+1, base, n, id+1)
			fmt.Fprintf(&b, "  %d: optional map<string, %s.%s> m%d\n", id+2, base, n, id+2)
			id += 3
		}
		fmt.Fprintf(&b, "}\n\nstruct WrapRequired {\n")
		id = 1
		for _, n := range names {
			fmt.Fprintf(&b, "  %d: required %s.%s r%d\n", id, base, n, id)
			id++
		}
		fmt.Fprintf(&b, "}\n")
		out := filepath.Join(filepath.Dir(path), "zzwrap_"+base+".thrift")
		if err := os.WriteFile(out, []byte(b.String()), 0644); err != nil {
			fmt.Fprintln(os.Stderr, err)
			os.Exit(1)
		}
		fmt.Println(out)
	}
}
