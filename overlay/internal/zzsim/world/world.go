// Package world holds what the three engines share: the result of one
// simulated run and small helpers.
package world

import (
	"crypto/sha256"
	"encoding/hex"
	"fmt"
	"hash/fnv"
	"os"
	"path/filepath"
	"sort"
	"strings"

	"go.uber.org/thriftrw/internal/zzsim/simrt"
)

// Opts selects what a run does.
type Opts struct {
	Prop   string // property id, e.g. "C16"
	Kind   string // run kind within the property's engine ("" = drawn from the seed)
	Cell   int    // systematic-floor cell (-1 = none)
	Trace  bool   // produce the human-readable trace and sample
	Tier   string
	Worker int
	TmpDir string
}

// Result of one simulated run.
type Result struct {
	Failures   []simrt.Failure
	Choices    []int32
	Hash       uint64 // determinism hash of the run (events, outcome)
	Key        uint64 // hash identifying the case for distinctness counting
	Nontrivial bool   // reached the property's core path (rule stated per world)
	Steps      int64
	Switches   int64
	SchedHash  uint64
	MapHash    uint64
	Aborted    string
	Counts     map[string]int64 // per-run counters merged into the evidence (fault kinds fired, cells, ...)
	Trace      []string         // when Opts.Trace
	Sample     interface{}      // when Opts.Trace
	Notes      []string         // out-of-scope observations
	Overflow   bool
}

func (r *Result) Count(name string, n int64) {
	if r.Counts == nil {
		r.Counts = map[string]int64{}
	}
	r.Counts[name] += n
}

func (r *Result) Failf(check, format string, args ...interface{}) {
	r.Failures = append(r.Failures, simrt.Failure{Check: check, Msg: fmt.Sprintf(format, args...)})
}

// FromSim copies the generic part of a finished run.
func (r *Result) FromSim(s *simrt.Sim) {
	r.Failures = append(r.Failures, s.Failures...)
	r.Choices = append([]int32{}, s.Choices()...)
	r.Steps = s.Steps
	r.Switches = s.Switches
	r.SchedHash = s.SchedHash
	r.MapHash = s.MapHash()
	r.Aborted = s.Aborted
	r.Overflow = s.Overflow()
	r.Notes = append(r.Notes, s.Notes...)
}

// Hasher accumulates a determinism hash.
type Hasher struct{ h uint64 }

func NewHasher() *Hasher { return &Hasher{h: 1469598103934665603} }
func (h *Hasher) Str(s string) {
	for i := 0; i < len(s); i++ {
		h.h = (h.h ^ uint64(s[i])) * 1099511628211
	}
	h.h = (h.h ^ 0xff) * 1099511628211
}
func (h *Hasher) Int(v int64) {
	for i := 0; i < 8; i++ {
		h.h = (h.h ^ uint64(byte(v>>(8*i)))) * 1099511628211
	}
}
func (h *Hasher) Sum() uint64 { return h.h }

func HashString(s string) uint64 {
	f := fnv.New64a()
	f.Write([]byte(s))
	return f.Sum64()
}

func unsb(s, sandbox string) string {
	if sandbox == "" {
		return s
	}
	return strings.ReplaceAll(s, sandbox, "$SB")
}

// EventsHash folds the run's event log into the hasher, replacing the sandbox
// root by a placeholder.
func EventsHash(h *Hasher, s *simrt.Sim, sandbox string) {
	for _, e := range s.Events {
		h.Int(int64(e.Task))
		h.Str(e.Kind)
		h.Str(unsb(e.Obj, sandbox))
		h.Int(e.N)
		h.Str(unsb(e.Data, sandbox))
	}
	for _, c := range s.Choices() {
		h.Int(int64(c))
	}
}

// Snapshot lists a directory tree: relative path -> sha256 (or "dir").
func Snapshot(root string) map[string]string {
	out := map[string]string{}
	filepath.Walk(root, func(p string, info os.FileInfo, err error) error {
		if err != nil {
			return nil
		}
		rel, _ := filepath.Rel(root, p)
		if rel == "." {
			return nil
		}
		if info.IsDir() {
			out[rel] = "dir"
			return nil
		}
		if info.Mode()&os.ModeSymlink != 0 {
			t, _ := os.Readlink(p)
			out[rel] = "symlink:" + t
			return nil
		}
		data, err := os.ReadFile(p)
		if err != nil {
			out[rel] = "unreadable"
			return nil
		}
		sum := sha256.Sum256(data)
		out[rel] = hex.EncodeToString(sum[:8])
		return nil
	})
	return out
}

// DiffSnap returns the sorted list of paths created, modified or deleted.
func DiffSnap(before, after map[string]string) []string {
	var out []string
	for p, h := range after {
		if b, ok := before[p]; !ok {
			out = append(out, "+"+p)
		} else if b != h {
			out = append(out, "~"+p)
		}
	}
	for p := range before {
		if _, ok := after[p]; !ok {
			out = append(out, "-"+p)
		}
	}
	sort.Strings(out)
	return out
}

// TraceOf renders the labelled choices and events of a run.
func TraceOf(s *simrt.Sim, sandbox string) []string {
	var out []string
	ls := s.Labels()
	cs := s.Choices()
	// compress the choice list: label=value, runs of zeros summarised
	var sb strings.Builder
	zeros := 0
	flush := func() {
		if zeros > 0 {
			fmt.Fprintf(&sb, " (0 x%d)", zeros)
			zeros = 0
		}
	}
	for i, c := range cs {
		if c == 0 {
			zeros++
			continue
		}
		flush()
		l := "?"
		if i < len(ls) {
			l = ls[i]
		}
		fmt.Fprintf(&sb, " [%d]%s=%d", i, l, c)
		if sb.Len() > 6000 {
			sb.WriteString(" ...")
			break
		}
	}
	flush()
	out = append(out, "choices (non-zero):"+sb.String())
	n := 0
	for _, e := range s.Events {
		line := fmt.Sprintf("#%d t%d %s %s", e.Seq, e.Task, e.Kind, unsb(e.Obj, sandbox))
		if e.N != 0 {
			line += fmt.Sprintf(" n=%d", e.N)
		}
		if e.Data != "" {
			d := unsb(e.Data, sandbox)
			if len(d) > 300 {
				d = d[:300] + "..."
			}
			line += " " + d
		}
		out = append(out, line)
		n++
		if n > 400 {
			out = append(out, fmt.Sprintf("... (%d more events)", len(s.Events)-n))
			break
		}
	}
	return out
}
