//go:build verifsim

package main

import (
	"os"
	"testing"

	"go.uber.org/thriftrw/internal/zzsim/zzmain"
)

// TestMain turns the test binary of cmd/thriftbreak into the simulation
// worker: the harness needs the unexported run().
func TestMain(m *testing.M) {
	if os.Getenv("VSIM_WORKER") != "" {
		zzmain.TBRun = run
		zzmain.TBMain = main
		zzmain.Init()
		os.Exit(zzmain.Main())
	}
	os.Exit(m.Run())
}
